------------------------------- MODULE DOETrace -------------------------------
(***************************************************************************)
(* code -> spec for C14: validates scenarios recorded from the real DOE    *)
(* libraries.  A scenario = one algorithm + settings + design space, two   *)
(* library instances, a history of compute_doe / execute calls.  Every     *)
(* call is logged as three events                                          *)
(*    call                       arguments, flag and default seed before   *)
(*    sample | samplefail | early   what happened at the sampler hook      *)
(*                               (_generate_unit_samples): seed consulted, *)
(*                               flag during, the unit samples             *)
(*    end                        outcome, flag and default seed after,     *)
(*                               the samples, database keys                *)
(* and is replayed with the ACTIONS of DOEPipeline (Begin, Refuse,         *)
(* EarlyReject, Sample, SampleFail, Finish, Raise) bound to the logged     *)
(* values.  Before each step the guards of the action are evaluated one by *)
(* one as NAMED CLAUSES; when one fails its name is recorded for the       *)
(* verdict and the state is resynchronised from the log so that the rest   *)
(* of the scenario is still checked (total verdict).  When every clause    *)
(* holds the step is the specification's action itself: if that were not   *)
(* enabled the trace would stop there (reported as TraceConformance).      *)
(*                                                                         *)
(* Unit samples on the grid j/G and samples on the grid 1/(S*G) are logged *)
(* as integer matrices: the specification computes the image itself.       *)
(* Other (random) samples are opaque: the recorder logs, per column, the   *)
(* exact three-way comparisons with the bounds, integrality and the        *)
(* comparison with the exact image of the unit sample (fractions.Fraction  *)
(* on the doubles; 0 equal, +-1 within 4 ulp, +-2 beyond), and the         *)
(* specification evaluates its clauses on these codes.  Assumption         *)
(* UnitCube is MONITORED on what the wrapper returned.                     *)
(*                                                                         *)
(* The design space of a scenario is logged as it was FIRST BUILT (raw:    *)
(* components with their variable names, in the order of add_variable) or  *)
(* as the dimension handed to compute_doe (asint), together with the       *)
(* DesignSpace operations applied before the DOE ran (prep); the           *)
(* specification computes the design-space order from them.  Every call    *)
(* logs the user-provided structure as it was passed (ux: input form and   *)
(* literal content of a user-supplied design with the keys in the user's   *)
(* order, `reverse` strings, levels / centres per direction, initial       *)
(* point); the specification gives it its meaning (AuxOf) and states the   *)
(* result against it: clauses VariableOrder, Structure, CountRule.         *)
(***************************************************************************)
EXTENDS DOEPipeline, Json, IOUtils, TLCExt

Traces == JsonDeserialize(IOEnv.TRACE_FILE)
VARIABLES tid, l, fails
tvars == <<vars, tid, l, fails>>
T == Traces[tid]
Ev == T.events[l]
LayoutOf(space) == [m \in 1..Len(VarSeq(space)) |-> <<VarSeq(space)[m], Len(Idx(space, VarSeq(space)[m]))>>]
SameSpace(a, b) == Len(a) = Len(b) /\ \A k \in 1..Len(a) : a[k].var = b[k].var /\ a[k].lb = b[k].lb /\ a[k].ub = b[k].ub /\ a[k].int = b[k].int
TSpace(t) == IF t.asint > 0 THEN UnitSpace(t.asint) ELSE PrepAll(t.raw, t.prep)

TInit == /\ tid \in 1..Len(Traces)
         /\ l = 1
         /\ fails = {}
         /\ dflt = [i \in Insts |-> 0]
         /\ flag = T.flag0
         /\ sp = TSpace(T)
         /\ pc = "idle"
         /\ cur = NoCall
         /\ memo = <<>>
         /\ ncalls = 0

Bad(clauses) == {c[1] : c \in {c \in clauses : ~c[2]}}
Q(name, obs) == IF cur.fam \in QFams \/ cur.fam = "atmost" THEN name ELSE obs

\* ---------------------------------------------------------------- call
CallClauses(e) == {
  <<"KnownFamily", e.fam \in AllFams /\ e.inst \in Insts /\ WellFormed(sp)>>,
  \* (machinery) the harness only passes well-formed user structure
  <<"HarnessInput", e.fam \in AllFams => AuxValid(sp, e.fam, e.p, AuxOf(sp, e.fam, e.ux))>>,
  \* the real design space lists its variables (names, sizes) in the order the specification computes
  <<"SpaceLayout", e.layout # <<>> => e.layout = LayoutOf(sp)>>,
  <<"HarnessSpace", SameSpace(T.final, sp)>>,
  <<"PreFlag", e.flag = flag>>,
  <<"PreSeed", e.inst \in Insts => e.dflt = dflt[e.inst]>> }
CallConform(e) ==
  IF e.api = "execute" /\ ExecRefuses(e.fam, e.n, Dim, e.p)
  THEN Refuse(e.inst, e.api, e.fam, e.n, e.p, e.seeded, e.seed, e.ux)
  ELSE Begin(e.inst, e.api, e.fam, e.n, e.p, e.seeded, e.seed, e.inj, e.ux)
CallResync(e) ==
  /\ dflt' = [dflt EXCEPT ![e.inst] = e.dflt]
  /\ cur' = [NewCall(e.inst, e.api, e.fam, e.n, e.p, e.seeded, e.seed, e.inj, e.ux) EXCEPT !.saved = e.flag, !.d0 = e.dflt]
  /\ flag' = TRUE
  /\ pc' = "begun"
  /\ ncalls' = ncalls + 1
  /\ UNCHANGED <<sp, memo>>

\* ---------------------------------------------------------------- sampler hook
SeedClauses(e) == {
  <<"SeederOnce", e.calls \in {0, 1}>>,
  <<"SeedRule", e.calls >= 1 => e.used = SeedUsed(cur.seeded, cur.seed, cur.d0)>>,
  <<"FlagDuring", e.flag>> }

UnitCubeLogged(e) == IF e.ugrid THEN UnitCube(e.u) ELSE (e.ulo >= 0 /\ e.uhi <= 0)
SampleKey(e) == Key([cur EXCEPT !.calls = e.calls, !.used = e.used])
SampleClauses(e) == SeedClauses(e) \cup {
  <<"Protocol", pc = "begun">>,
  <<"SpaceLayout", e.layout = LayoutOf(sp)>>,      \* the space handed to the sampler
  \* the implementation returned samples although the specification rejects (n, d) or the settings
  <<"RejectRule", SettingsValid(cur.fam, cur.n, cur.p) /\ Accepts(cur.fam, cur.n, Dim, cur.p) /\ ~cur.inj>>,
  <<"CountRule", CountOKC(cur, Dim, e.cnt)>>,
  <<Q("AtMostRequested", "AtMostRequestedObs"), cur.fam \in NFams => e.cnt <= cur.n>>,
  <<"UnitShape", e.ugrid => Shape(e.u, e.cnt, Dim)>>,
  <<Q("UnitCube", "UnitCubeObs"), UnitCubeLogged(e)>>,
  <<"Structure", e.ugrid /\ Shape(e.u, e.cnt, Dim) /\ e.cnt >= 1 => StructureOKC(sp, cur, e.u)>>,
  <<"Deterministic", SampleKey(e) \in DOMAIN memo => memo[SampleKey(e)].u = e.uid>> }
SampleConform(e) == Sample(e.calls, e.cnt, IF e.ugrid THEN e.u ELSE <<>>, e.uid, ~e.ugrid)
SampleResync(e) ==
  /\ cur' = [cur EXCEPT !.calls = e.calls, !.used = e.used, !.cnt = e.cnt, !.opq = TRUE,
                        !.unit = <<>>, !.utok = e.uid]
  /\ dflt' = [dflt EXCEPT ![cur.inst] = cur.d0 + e.calls]
  /\ flag' = e.flag
  /\ pc' = "sampled"
  /\ UNCHANGED <<sp, memo, ncalls>>

FailClauses(e) == SeedClauses(e) \cup {
  <<"Protocol", pc = "begun">>,
  \* an exception on an operation the specification allows
  <<"RejectRule", \/ ~SettingsValid(cur.fam, cur.n, cur.p) \/ ~Accepts(cur.fam, cur.n, Dim, cur.p)
                  \/ MayReject(cur.fam, cur.p) \/ cur.inj>> }
\* (a sampler reached with settings the model calls invalid raises like a rejected (n, d))
FailResync(e) ==
  /\ cur' = [cur EXCEPT !.calls = e.calls, !.used = e.used]
  /\ dflt' = [dflt EXCEPT ![cur.inst] = cur.d0 + e.calls]
  /\ flag' = e.flag
  /\ pc' = "failed"
  /\ UNCHANGED <<sp, memo, ncalls>>
FailConform(e) == IF SettingsValid(cur.fam, cur.n, cur.p) /\ (~Accepts(cur.fam, cur.n, Dim, cur.p) \/ cur.inj)
                  THEN SampleFail(e.calls) ELSE FailResync(e)

\* the call raised before the sampler hook was reached
EarlyClauses(e) == {
  <<"RejectRule", pc = "done" \/ ~SettingsValid(cur.fam, cur.n, cur.p) \/ MayReject(cur.fam, cur.p)>> }     \* "done": Refuse was enabled
EarlyConform(e) == IF pc = "done" THEN UNCHANGED vars ELSE EarlyReject     \* "done": already Refused
EarlyResync(e) == /\ pc' = "failed" /\ UNCHANGED <<dflt, flag, sp, cur, memo, ncalls>>

\* ---------------------------------------------------------------- end
Col(e, k) == e.cols[k]      \* <<min cmp(x, lb), max cmp(x, ub), all integral (0/1), max |image code|>>
\* the bounds clause is demanded under assumption UnitCube (monitored at the previous event)
UnitCubeHeld == <<l - 1, "UnitCube">> \notin fails /\ <<l - 1, "UnitCubeObs">> \notin fails
EndOkClauses(e) == {
  <<"Protocol", pc = "sampled">>,
  <<"CountRule", e.count = cur.cnt>>,
  <<"Shape", Len(e.cols) = Dim /\ (e.xgrid => Shape(e.x, e.count, Dim))>>,
  \* the image of a grid point is on the grid; the specification recomputes it
  <<"ImageOfUnit", /\ (~cur.opq => e.xgrid)
                   /\ (~cur.opq /\ e.xgrid /\ pc = "sampled" /\ Shape(e.x, Len(cur.unit), Dim)
                          => SamplesOK(sp, cur.unit, e.x, TRUE))
                   /\ \A k \in 1..Len(e.cols) : Col(e, k)[4] <= 1>>,
  <<Q("InBounds", "InBoundsObs"), UnitCubeHeld =>
                /\ \A k \in 1..Len(e.cols) : Col(e, k)[1] >= 0 /\ Col(e, k)[2] <= 0
                /\ (e.xgrid /\ Shape(e.x, e.count, Dim) =>
                      \A r \in 1..Len(e.x) : \A k \in 1..Dim : InBoundsCell(sp[k], e.x[r][k]))>>,
  <<"Integral", /\ \A k \in 1..Len(e.cols) : (k <= Dim /\ sp[k].int) => Col(e, k)[3] = 1
                /\ (e.xgrid /\ Shape(e.x, e.count, Dim) =>
                      \A r \in 1..Len(e.x) : \A k \in 1..Dim : IntegralCell(sp[k], e.x[r][k]))>>,
  <<"Deterministic", Key(cur) \in DOMAIN memo => memo[Key(cur)].x = e.sid>>,
  \* a user-supplied design: the values given for (sample, variable NAME) are found at the index range of
  \* that variable in the design-space order (given values are on the grid, so the samples must be)
  <<"VariableOrder", cur.fam = "custom" /\ AuxValid(sp, cur.fam, cur.p, cur.aux) =>
                        e.xgrid /\ VariableOrderOf(sp, cur.aux.tab, e.x)>>,
  <<"IntNormRestored", e.flag = cur.saved>>,
  <<"SeederState", e.dflt = cur.d0 + cur.calls>>,
  <<"DbOrder", cur.api = "execute" => e.keys = Dedup(e.rowids)>> }
\* Finish with the logged matrix; its own guard (SamplesOK) is clause ImageOfUnit above
EndOkConform(e) ==
  /\ Finish(IF cur.opq THEN <<>> ELSE e.x, e.sid)
EndResync(e) ==
  /\ cur' = [cur EXCEPT !.ok = e.ok]
  /\ dflt' = [dflt EXCEPT ![cur.inst] = e.dflt]
  /\ flag' = e.flag
  /\ pc' = "done"
  /\ UNCHANGED <<sp, memo, ncalls>>

EndFailClauses(e) == {
  \* the call raised although the sampler had returned (nothing is demanded when UnitCube failed)
  <<"RejectRule", pc \in {"failed", "done"} \/ ~UnitCubeHeld>>,
  <<"IntNormRestored", e.flag = cur.saved>>,
  <<"SeederState", e.dflt = cur.d0 + cur.calls>> }
EndFailConform(e) == IF pc = "failed" THEN Raise
                     ELSE IF pc = "done" THEN UNCHANGED vars      \* refused by execute()
                     ELSE EndResync(e)                            \* raised after sampling outside the unit cube

\* ---------------------------------------------------------------- stepping
Clauses(e) ==
  CASE e.ev = "call"       -> CallClauses(e)
    [] e.ev = "sample"     -> SampleClauses(e)
    [] e.ev = "samplefail" -> FailClauses(e)
    [] e.ev = "early"      -> EarlyClauses(e)
    [] e.ev = "end" /\ e.ok  -> EndOkClauses(e)
    [] e.ev = "end" /\ ~e.ok -> EndFailClauses(e)
Conform(e) ==
  CASE e.ev = "call"       -> CallConform(e)
    [] e.ev = "sample"     -> SampleConform(e)
    [] e.ev = "samplefail" -> FailConform(e)
    [] e.ev = "early"      -> EarlyConform(e)
    [] e.ev = "end" /\ e.ok  -> EndOkConform(e)
    [] e.ev = "end" /\ ~e.ok -> EndFailConform(e)
Resync(e) ==
  CASE e.ev = "call"       -> CallResync(e)
    [] e.ev = "sample"     -> SampleResync(e)
    [] e.ev = "samplefail" -> FailResync(e)
    [] e.ev = "early"      -> EarlyResync(e)
    [] e.ev = "end"        -> EndResync(e)

TStep == /\ l <= Len(T.events)
         /\ l' = l + 1
         /\ UNCHANGED tid
         /\ LET e == Ev
                bad == Bad(Clauses(e))
            IN  /\ fails' = fails \cup {<<l, c>> : c \in bad}
                /\ IF bad = {} THEN Conform(e) ELSE Resync(e)
TNext == TStep
TSpec == TInit /\ [][TNext]_tvars

\* the clauses of DOEPipeline keep being evaluated as invariants on the replayed states
\* (they hold by construction whenever no clause failed)
Clean == fails = {}
TFlagDuring == Clean => FlagDuring
TIntNormRestored == Clean => IntNormRestored
TInBounds == Clean /\ ~cur.opq /\ cur.fam \in QFams => InBounds
TIntegral == Clean /\ ~cur.opq => Integral
TImageOfUnit == Clean /\ ~cur.opq => ImageOfUnit
TSeedRule == Clean => SeedRule
TDeterministic == Clean => Deterministic

\* verdict registers: furthest event reached and the failed clauses (run with -workers 1)
Reach == TLCSet(tid, IF TLCGet(tid)[1] < l THEN <<l, fails>> ELSE TLCGet(tid))
RegInit == \A i \in 1..Len(Traces) : TLCSet(i, <<0, {}>>)
ASSUME RegInit
Accepted == \A i \in 1..Len(Traces) :
   PrintT(<<"TRACE", Traces[i].id, TLCGet(i)[1] - 1, Len(Traces[i].events), TLCGet(i)[2]>>)
================================================================================
