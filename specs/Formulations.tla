---------------------------- MODULE Formulations ----------------------------
(***************************************************************************)
(* C17 - MDO formulations are equivalent views of the same problem         *)
(* (exact-arithmetic slice, DESIGN 3.3 and 4/C17).                         *)
(*                                                                         *)
(* An INSTANCE (enumerated as an initial state) is a coupled system of 1-4 *)
(* disciplines                                                             *)
(*      out_o = c0[o] + SUM_{i in ins(d)} J[o][i] . phi_d(in_i)            *)
(* with INTEGER blocks J (entries -2..2), integer constants, variable      *)
(* sizes 1..2, phi_d the identity ("lin") or the elementwise square ("sq", *)
(* only for disciplines that produce no coupling), whose coupling operator *)
(* B over ALL couplings (inputs of a discipline that are outputs of one)   *)
(* has I - B UNIMODULAR: the multidisciplinary solution y*(x) of           *)
(* y = b(x) + B y is the integer vector (I - B)^-1 b(x) = det.adj(I-B).b,  *)
(* computed exactly here.  It comes with a user design space `space` (a    *)
(* sequence of names: shared and local design variables, the couplings,    *)
(* possibly a variable no discipline reads), dyadic bounds, current        *)
(* values, default values for every discipline input (an input that is     *)
(* neither a coupling nor in the space is a PARAMETER kept at its          *)
(* default), an objective output and constraint outputs.                   *)
(*    instance = topology x size profile x coupling blocks (catalogue,     *)
(*               filtered by det(I - B) = +-1) x seed of the other data    *)
(*               + hand-written convex quadratic instances whose optimum   *)
(*               is an integer point (invariant OptimumKnown).             *)
(*                                                                         *)
(* ACTIONS.  Build(F, gsv, norm): formulation F in {MDF, IDF, DOPT,        *)
(* BILEVEL} is                                                             *)
(* built on the user space variant gsv ("full": as listed; "nocpl":        *)
(* without the couplings; "noweak": without the weak couplings only) and   *)
(* res' is everything the formulation exposes: its design variables (in    *)
(* order) and, at lattice points, the value and the Jacobian (one block    *)
(* per design variable) of the objective and of every constraint.          *)
(* Reject(F, gsv): IDF on a space that lacks a coupling - weak ones        *)
(* included - raises; DOPT is not defined on a strongly coupled system or  *)
(* on a listing that is not an execution order.                            *)
(*   MDF : space = user space minus every coupling minus every variable    *)
(*         no discipline reads; f(x) = F(x, y*(x)); total derivative       *)
(*         dF/dx + dF/dy (I - B)^-1 dY/dx.                                 *)
(*   IDF : requires every coupling in the space; keeps the space;          *)
(*         f(x, y) = F(x, y) with the discipline inputs taken from the     *)
(*         design vector BY NAME (masks), parameters at their defaults;    *)
(*         one consistency constraint per discipline producing couplings,  *)
(*         in the listing order of the disciplines, its outputs sorted by  *)
(*         name: Y_o(x, y) - y_o, divided componentwise by |ub - lb| of    *)
(*         y_o when normalize_constraints; then the user constraints.      *)
(*   DOPT: (no strong coupling, listing = execution order) the disciplines *)
(*         are executed in sequence; space = user space restricted to the  *)
(*         inputs of the sequence that no earlier discipline produces.     *)
(*         Defined here by FORWARD PROPAGATION of values and derivatives,  *)
(*         independently of the MDF definition.                            *)
(*   BILEVEL (variable sets only, systems whose couplings are all strong): *)
(*         a sub-scenario per discipline owning local design variables,    *)
(*         the system level keeps the shared ones that are read.           *)
(* Build also records the INPUT MASKS (positions of each discipline's      *)
(* inputs in the formulation's design vector) and, for IDF, the start      *)
(* point of start_at_equilibrium (couplings at y*(current design)).        *)
(* Normalised quantities are kept as numerator/denominator pairs (den =    *)
(* ub - lb, a power of two: the quotient is exact in binary64).            *)
(*                                                                         *)
(* OPTIONS OF IDF (how the formulation is built and started): Build takes, *)
(* besides normalize_constraints, `eq` (start_at_equilibrium: the current  *)
(* value of every coupling target becomes its value y*(x0) at the          *)
(* multidisciplinary solution for the CURRENT design values x0 of the      *)
(* design space - which differ from the default inputs of the              *)
(* disciplines), `par` (n_processes: "seq" = 1, "thr" = 2 threads, "mp" =  *)
(* 2 processes; the execution strategy changes NOTHING of what the         *)
(* formulation exposes) and `bnd`, the bounds the user gave to the         *)
(* coupling variables (design-space catalogue: "fin" both bounds on every  *)
(* component, "open" no bound, "half" per component both / lower only /    *)
(* upper only).  A component of a consistency constraint whose coupling    *)
(* has no finite width cannot be divided by that width: its scale is then  *)
(* UNSPECIFIED (`free`: any finite positive constant - the property only   *)
(* says that the constraint vanishes exactly at the multidisciplinary      *)
(* solution and that the derivatives are consistent).  Which option        *)
(* combinations are enumerated for an instance is bounded by OptSel        *)
(* (constants Eqs, Pars, Bnds, OptMod, MpMod).                             *)
(*                                                                         *)
(* INVARIANTS (the property clauses): SpacesExact, RejectExact,            *)
(* MasksCover, SameValues, ConsistencyVanishes, ConsistentDerivatives,     *)
(* StartsAtEquilibrium, ScalesDefined, DOptAgrees, ResultsAreValues (a     *)
(* later evaluation                                                        *)
(* does not change an earlier result), plus WellFormed / DyadicBounds /    *)
(* OptimumKnown which justify the slice, and three deliberately FALSE      *)
(* claims                                                                  *)
(* (FalseClaim...) that TLC must refute (non-vacuity).                     *)
(***************************************************************************)
EXTENDS Integers, Sequences, FiniteSets, TLC, MatC17

CONSTANTS Topos,      \* topology names to enumerate
          Profiles,   \* size profiles (bit k: the k-th name of the topology, sorted, has size 2)
          Choices,    \* coupling-block choices (mixed radix NCat over the coupling pairs)
          Seeds,      \* seeds of the non-coupling blocks, constants, defaults, points
          Quads,      \* indices of the hand-written quadratic instances
          EmitMod, EmitRes,   \* a built case is printed iff hash % EmitMod \in EmitRes
          Emit,
          Eqs,        \* values of start_at_equilibrium to enumerate (subset of BOOLEAN)
          Pars,       \* execution strategies of IDF to enumerate (subset of {"seq", "thr", "mp"})
          Bnds,       \* bound variants of the coupling variables (subset of {"fin", "open", "half"})
          OptMod,     \* an option combination other than the plain one is enumerated for 1 instance in OptMod
          MpMod       \* ... and a multiprocessing one for 1 in OptMod * MpMod

VARIABLES inst,    \* the instance (constant along a behaviour)
          phase,   \* "new" | "built" | "rejected"
          form,    \* [F, gsv, norm, eq, par, bnd]
          res      \* what the formulation exposes (Build) ; EmptyRes otherwise
vars == <<inst, phase, form, res>>

----------------------------------------------------------------------------
(* names; gemseo sorts coupling names (ASCII order)                        *)
Names == <<"a", "c", "f", "g", "h", "p", "r", "s", "u", "w", "x", "y1", "y2", "y3", "z">>
Idx(n) == CHOOSE k \in 1..Len(Names) : Names[k] = n
SeqSet(s) == {s[k] : k \in 1..Len(s)}
Sorted(S) == SelectSeq(Names, LAMBDA n : n \in S)
Filter(s, S) == SelectSeq(s, LAMBDA n : n \in S)

D(i, o) == [ins |-> i, outs |-> o, kind |-> "lin"]
Q(i, o) == [ins |-> i, outs |-> o, kind |-> "sq"]

\* D: disciplines in listing order; space: the user design space; obj; cons: each a sequence of outputs
Topo(t) ==
  CASE t = "pair"   -> [D |-> << D({"x","z","y2"}, {"y1"}), D({"x","a","y1","p"}, {"y2"}),
                                 D({"x","y1","y2"}, {"f","g"}) >>,
                        space |-> <<"z","y2","x","y1","a">>, obj |-> "f", cons |-> << <<"g">> >>]
    [] t = "pairf"  -> [D |-> << D({"x","z","y2"}, {"y1","f"}), D({"x","a","y1"}, {"y2","g","h"}) >>,
                        space |-> <<"u","y1","a","x","z","y2">>, obj |-> "f",
                        cons |-> << <<"h","g">> >>]                            \* two outputs, one constraint; u unused
    [] t = "weak"   -> [D |-> << D({"x"}, {"w"}), D({"w","z","y2"}, {"y1","f"}), D({"x","y1","a"}, {"y2","g"}) >>,
                        space |-> <<"y2","w","x","u","z","y1","a">>, obj |-> "f",
                        cons |-> << <<"g">> >>]                                \* weakly coupled head
    [] t = "two"    -> [D |-> << D({"x","y2"}, {"y1","c"}), D({"z","y1","c","p"}, {"y2","f","g","h"}) >>,
                        space |-> <<"z","y1","x","y2","c">>, obj |-> "f",
                        cons |-> << <<"g">>, <<"h">> >>]                       \* a discipline with two couplings
    [] t = "cycle3" -> [D |-> << D({"x","y3"}, {"y1"}), D({"z","y1"}, {"y2","g"}), D({"a","y2","x"}, {"y3","f"}) >>,
                        space |-> <<"a","y3","y1","x","z","y2">>, obj |-> "f", cons |-> << <<"g">> >>]
    [] t = "tail"   -> [D |-> << D({"x","y2"}, {"y1"}), D({"z","y1"}, {"y2"}), D({"y1","y2","a"}, {"w"}),
                                 D({"w","x","p"}, {"f","g"}) >>,
                        space |-> <<"w","a","y2","x","z","y1">>, obj |-> "f",
                        cons |-> << <<"g">> >>]                                \* weak coupling downstream of the group
    [] t = "self"   -> [D |-> << D({"x","s","y2"}, {"s","y1"}), D({"x","z","y1"}, {"y2","f","g"}) >>,
                        space |-> <<"y2","z","s","x","y1">>, obj |-> "f",
                        cons |-> << <<"g">> >>]                                \* a self-coupled discipline
    [] t = "chain"  -> [D |-> << D({"x","z"}, {"w"}), D({"x","w","a"}, {"c"}), D({"w","c","p"}, {"f","g"}) >>,
                        space |-> <<"c","z","x","u","w","a">>, obj |-> "f",
                        cons |-> << <<"g">> >>]                                \* no strong coupling
    [] t = "solo"   -> [D |-> << D({"x","z","p"}, {"f","g"}) >>,
                        space |-> <<"z","u","x">>, obj |-> "f", cons |-> << <<"g">> >>]
    [] t = "solou"  -> [D |-> << D({"x","z"}, {"f","g"}) >>,
                        space |-> <<"z","u","x">>, obj |-> "f", cons |-> << <<"g">> >>]    \* an unused variable, no parameter
    [] t = "solo0"  -> [D |-> << D({"x","z"}, {"f","g","h"}) >>,
                        space |-> <<"z","x">>, obj |-> "f", cons |-> << <<"g","h">> >>]
    [] t = "chain0" -> [D |-> << D({"x","z"}, {"w"}), D({"x","w"}, {"f","g"}) >>,
                        space |-> <<"w","z","x">>, obj |-> "f", cons |-> << <<"g">> >>]

AllIns(S)  == UNION {S[d].ins  : d \in 1..Len(S)}
AllOuts(S) == UNION {S[d].outs : d \in 1..Len(S)}
Cpl(S) == AllIns(S) \cap AllOuts(S)          \* CouplingStructure.all_couplings
Prod(S, o) == CHOOSE d \in 1..Len(S) : o \in S[d].outs

(* discipline graph, strongly coupled groups (CouplingStructure.strong_couplings) *)
Edge(S, d, e) == d # e /\ S[d].outs \cap S[e].ins # {}
RECURSIVE ReachN(_, _, _, _)
ReachN(S, d, e, k) == d = e \/ (k > 0 /\ \E m \in 1..Len(S) : Edge(S, d, m) /\ ReachN(S, m, e, k - 1))
Reach(S, d, e) == ReachN(S, d, e, Len(S))
Group(S, d) == {e \in 1..Len(S) : Reach(S, d, e) /\ Reach(S, e, d)}
SelfC(S, d) == S[d].ins \cap S[d].outs # {}
Merged(S, g) == Cardinality(g) > 1 \/ \E d \in g : SelfC(S, d)
GroupC(S, g) == (UNION {S[d].ins : d \in g}) \cap (UNION {S[d].outs : d \in g})
StrongC(S) == UNION {GroupC(S, g) : g \in {h \in {Group(S, d) : d \in 1..Len(S)} : Merged(S, h)}}
WeakC(S) == Cpl(S) \ StrongC(S)

----------------------------------------------------------------------------
(* instance data                                                           *)
Bit(p, k) == (p \div (2 ^ (k - 1))) % 2
TNames(T) == AllIns(T.D) \cup AllOuts(T.D) \cup SeqSet(T.space)
SizeOf(T, p) == LET ns == Sorted(TNames(T))
                IN  TLCEval([n \in SeqSet(ns) |-> 1 + Bit(p, CHOOSE k \in 1..Len(ns) : ns[k] = n)])

Cat11 == << <<<<0>>>>, <<<<1>>>>, <<<<-1>>>>, <<<<2>>>>, <<<<-2>>>>, <<<<1>>>> >>
Cat12 == << <<<<1,0>>>>, <<<<0,1>>>>, <<<<1,-1>>>>, <<<<0,2>>>>, <<<<-2,1>>>>, <<<<0,0>>>> >>
Cat21 == << <<<<1>>,<<0>>>>, <<<<0>>,<<1>>>>, <<<<1>>,<<-1>>>>, <<<<0>>,<<2>>>>, <<<<-1>>,<<2>>>>, <<<<0>>,<<0>>>> >>
Cat22 == << <<<<0,1>>,<<0,0>>>>, <<<<0,0>>,<<0,1>>>>, <<<<0,0>>,<<-1,0>>>>,
            <<<<1,1>>,<<-1,-1>>>>, <<<<0,2>>,<<0,0>>>>, <<<<0,-1>>,<<0,1>>>> >>
CatBlock(r, c, k) == IF r = 1 THEN (IF c = 1 THEN Cat11[k] ELSE Cat12[k])
                     ELSE (IF c = 1 THEN Cat21[k] ELSE Cat22[k])
NCat == 6

Gen(o, i, sd, r, c) ==
  LET io == Idx(o)
      ii == Idx(i)
  IN  Mk(r, c, LAMBDA rr, cc :
        ((io * 7 + ii * 13 + rr * 5 + cc * 3 + sd * 11 + rr * cc * sd + io * ii * (sd + 1)) % 5) - 2)
\* vectors: entries in -h..h
GenV(n, sd, salt, len, h) ==
  LET k == Idx(n) IN MkV(len, LAMBDA r : ((k * 7 + r * 5 + sd * 11 + salt * 13 + k * r * (sd + salt + 1)) % (2 * h + 1)) - h)

CPairs(S) == {p \in Cpl(S) \X Cpl(S) : p[2] \in S[Prod(S, p[1])].ins}     \* blocks of B
AllPairs == [k \in 1..(Len(Names) * Len(Names)) |->
               <<Names[((k - 1) \div Len(Names)) + 1], Names[((k - 1) % Len(Names)) + 1]>>]
PairSeq(S) == SelectSeq(AllPairs, LAMBDA p : p \in CPairs(S))              \* in sorted order

\* bounds: design variables [-4, 4]; couplings: width 64, 128 or 256 per component, not centred, one in
\* four above zero (|ub - lb| is then neither |ub| + |lb| nor 2 max(|lb|, |ub|))
Width(n, k) == 2 ^ (6 + ((Idx(n) + k) % 3))
CLb(n, k) == IF (Idx(n) + 2 * k) % 4 = 0 THEN 8
             ELSE 0 - (Width(n, k) \div 2) + 16 * ((Idx(n) + k) % 2)

RECURSIVE OffsetOf(_, _, _)
OffsetOf(sz, seq, n) == IF seq[1] = n THEN 0 ELSE sz[seq[1]] + OffsetOf(sz, Tail(seq), n)
RECURSIVE DimOf(_, _)
DimOf(sz, seq) == IF seq = <<>> THEN 0 ELSE sz[seq[1]] + DimOf(sz, Tail(seq))

\* J[o][v], a zero block when v is not an input of the discipline producing o
JB(I, o, v) == IF v \in I.D[Prod(I.D, o)].ins THEN I.J[o][v] ELSE Zero(I.size[o], I.size[v])
\* rows, cols: non-empty sequences of names
BlockOf(I, rows, cols) ==
  BlockMat(TLCEval([r \in 1..Len(rows) |-> TLCEval([c \in 1..Len(cols) |-> JB(I, rows[r], cols[c])])]))

\* derived data: the coupling operator over all couplings (sorted), det(I - B), its inverse
Complete(I) ==
  LET C == Sorted(Cpl(I.D))
      n == DimOf(I.size, C)
      B == IF C = <<>> THEN <<>> ELSE BlockOf(I, C, C)
      M == IF C = <<>> THEN <<>> ELSE MSub(Ident(n), B)
      det == Det(M)
  IN  [I EXCEPT !.C = C, !.B = B, !.det = det,
                !.inv = IF det \in {1, -1} THEN InvUnimod(M) ELSE <<>>,
                !.nilp = IF C = <<>> THEN TRUE ELSE IsZero(MPow(B, n))]

Blank == [key |-> <<>>, D |-> <<>>, space |-> <<>>, obj |-> "f", cons |-> <<>>, size |-> <<>>, J |-> <<>>,
          c0 |-> <<>>, dflt |-> <<>>, cur |-> <<>>, lb |-> <<>>, ub |-> <<>>, declin |-> FALSE,
          hasopt |-> FALSE, xopt |-> <<>>, C |-> <<>>, B |-> <<>>, det |-> 0, inv |-> <<>>, nilp |-> FALSE]

BuildInst(t, p, ch, sd) ==
  LET T == Topo(t)
      \* even seeds: the disciplines that produce no coupling are elementwise-square ("sq") disciplines, so that the
      \* Jacobians of the objective and of the user constraints DEPEND ON THE POINT (a result handed out for one
      \* point can then be told from the result of another point)
      S == TLCEval([d \in 1..Len(T.D) |-> IF sd % 2 = 0 /\ T.D[d].outs \cap Cpl(T.D) = {}
                                          THEN [T.D[d] EXCEPT !.kind = "sq"] ELSE T.D[d]])
      sz == SizeOf(T, p)
      ps == PairSeq(S)
      cbi(o, i) == LET k == CHOOSE k \in 1..Len(ps) : ps[k] = <<o, i>> IN ((ch \div (NCat ^ (k - 1))) % NCat) + 1
      J == TLCEval([o \in AllOuts(S) |-> TLCEval([i \in S[Prod(S, o)].ins |->
              IF <<o, i>> \in CPairs(S) THEN CatBlock(sz[o], sz[i], cbi(o, i))
              ELSE Gen(o, i, sd, sz[o], sz[i])])])
      sp == SeqSet(T.space)
  IN  Complete([Blank EXCEPT
        !.key = <<t, p, ch, sd>>, !.D = S, !.space = T.space, !.obj = T.obj, !.cons = T.cons,
        !.size = sz, !.J = J,
        !.c0 = TLCEval([o \in AllOuts(S) |-> GenV(o, sd, 1, sz[o], 3)]),
        !.dflt = TLCEval([i \in AllIns(S) |-> GenV(i, sd, 2, sz[i], 2)]),
        !.cur = TLCEval([v \in sp |-> IF v \in Cpl(S)
                                       THEN MkV(sz[v], LAMBDA k : CLb(v, k) + (Width(v, k) \div 4) + GenV(v, sd, 3, sz[v], 1)[k])
                                       ELSE GenV(v, sd, 3, sz[v], 1)]),
        !.lb = TLCEval([v \in sp |-> MkV(sz[v], LAMBDA k : IF v \in Cpl(S) THEN CLb(v, k) ELSE -4)]),
        !.ub = TLCEval([v \in sp |-> MkV(sz[v], LAMBDA k : IF v \in Cpl(S) THEN CLb(v, k) + Width(v, k) ELSE 4)]),
        !.declin = (sd % 2 = 1)])

(* hand-written convex quadratic instances: f = c + w . r^2, r affine in (x, y), the couplings         *)
(* solved by a strongly coupled pair; the claimed optimum xopt is checked by OptimumKnown.             *)
One(S, k) == [n \in S |-> <<k>>]
QuadInst(q) ==
  IF q = 1
  THEN \* y1 = y2 + x - 1, y2 = 2 y1 + z  (1 - 2 = -1: unimodular, not nilpotent);
       \* r = (y1 - 2, y2 - x - 1);  f = 3 + r1^2 + 2 r2^2;  optimum (x, z) = (1, -2): y = (2, 2), r = 0, f = 3
       Complete([Blank EXCEPT
         !.key = <<"quad", 0, 0, 1>>,
         !.D = << D({"x","y2"}, {"y1"}), D({"z","y1"}, {"y2"}), D({"x","y1","y2"}, {"r"}), Q({"r"}, {"f"}) >>,
         !.space = <<"z","y2","r","x","y1">>, !.obj = "f", !.cons = <<>>,
         !.size = [x |-> 1, z |-> 1, y1 |-> 1, y2 |-> 1, r |-> 2, f |-> 1],
         !.J = [y1 |-> [x |-> <<<<1>>>>, y2 |-> <<<<1>>>>], y2 |-> [z |-> <<<<1>>>>, y1 |-> <<<<2>>>>],
                r |-> [x |-> <<<<0>>, <<-1>>>>, y1 |-> <<<<1>>, <<0>>>>, y2 |-> <<<<0>>, <<1>>>>],
                f |-> [r |-> <<<<1, 2>>>>]],
         !.c0 = [y1 |-> <<-1>>, y2 |-> <<0>>, r |-> <<-2, -1>>, f |-> <<3>>],
         !.dflt = [x |-> <<0>>, z |-> <<0>>, y1 |-> <<0>>, y2 |-> <<0>>, r |-> <<0, 0>>],
         !.cur = [x |-> <<0>>, z |-> <<0>>, y1 |-> <<1>>, y2 |-> <<1>>, r |-> <<1, 1>>],
         !.lb = [x |-> <<-4>>, z |-> <<-4>>, y1 |-> <<-16>>, y2 |-> <<-32>>, r |-> <<-16, -32>>],
         !.ub = [x |-> <<4>>, z |-> <<4>>, y1 |-> <<16>>, y2 |-> <<32>>, r |-> <<16, 32>>],
         !.hasopt = TRUE, !.xopt = [x |-> <<1>>, z |-> <<-2>>]])
  ELSE \* nilpotent, strongly coupled, couplings of size 2 (B12 = [[0,1],[0,0]], B21 = [[0,0],[0,1]]):
       \* y1 = (x, 2x) + (1, -1) + B12 y2, y2 = (0, z) + (2, 3) + B21 y1, i.e. y1 = (3x + z + 3, 2x - 1),
       \* y2 = (2, 2x + z + 2);  r = y1 - y2 + (-3, 2) = (3x + z - 2, -z - 1);  f = -1 + 2 r1^2 + r2^2;
       \* g = y1[1] + y2[1] - 30 <= 0 inactive;  optimum (x, z) = (1, -1): y1 = (5, 1), y2 = (2, 3), r = 0, f = -1
       Complete([Blank EXCEPT
         !.key = <<"quad", 0, 0, 2>>,
         !.D = << D({"x","y2"}, {"y1"}), D({"z","y1"}, {"y2"}), D({"y1","y2"}, {"r","g"}), Q({"r"}, {"f"}) >>,
         !.space = <<"y1","x","r","y2","z">>, !.obj = "f", !.cons = << <<"g">> >>,
         !.size = [x |-> 1, z |-> 1, y1 |-> 2, y2 |-> 2, r |-> 2, f |-> 1, g |-> 1],
         !.J = [y1 |-> [x |-> <<<<1>>, <<2>>>>, y2 |-> <<<<0, 1>>, <<0, 0>>>>],
                y2 |-> [z |-> <<<<0>>, <<1>>>>, y1 |-> <<<<0, 0>>, <<0, 1>>>>],
                r |-> [y1 |-> <<<<1, 0>>, <<0, 1>>>>, y2 |-> <<<<-1, 0>>, <<0, -1>>>>],
                g |-> [y1 |-> <<<<1, 0>>>>, y2 |-> <<<<1, 0>>>>],
                f |-> [r |-> <<<<2, 1>>>>]],
         !.c0 = [y1 |-> <<1, -1>>, y2 |-> <<2, 3>>, r |-> <<-3, 2>>, g |-> <<-30>>, f |-> <<-1>>],
         !.dflt = [x |-> <<0>>, z |-> <<0>>, y1 |-> <<0, 0>>, y2 |-> <<0, 0>>, r |-> <<0, 0>>],
         !.cur = [x |-> <<0>>, z |-> <<0>>, y1 |-> <<1, 1>>, y2 |-> <<1, 1>>, r |-> <<1, 1>>],
         !.lb = [x |-> <<-4>>, z |-> <<-4>>, y1 |-> <<-32, -32>>, y2 |-> <<-32, -16>>, r |-> <<-32, -64>>],
         !.ub = [x |-> <<4>>, z |-> <<4>>, y1 |-> <<32, 32>>, y2 |-> <<32, 48>>, r |-> <<32, 64>>],
         !.hasopt = TRUE, !.xopt = [x |-> <<1>>, z |-> <<-1>>]])

----------------------------------------------------------------------------
(* the functions the disciplines compute                                   *)
S_(I) == I.D
CplI(I) == SeqSet(I.C)
Sz(I, v) == I.size[v]

RECURSIVE VSumSeq(_, _)
VSumSeq(s, z) == IF Len(s) = 0 THEN z ELSE VAdd(s[1], VSumSeq(Tail(s), z))
RECURSIVE MSumSeq(_, _)
MSumSeq(s, z) == IF Len(s) = 0 THEN z ELSE MAdd(s[1], MSumSeq(Tail(s), z))

Phi(I, d, x) == IF I.D[d].kind = "sq" THEN VSquare(x) ELSE x
\* val: name -> vector, defined (at least) on the inputs of the discipline producing o
EvalOut(I, val, o) ==
  LET d == Prod(I.D, o)
      ins == Sorted(I.D[d].ins)
  IN  VSumSeq(TLCEval([k \in 1..Len(ins) |-> MVec(I.J[o][ins[k]], Phi(I, d, val[ins[k]]))]), I.c0[o])
\* partial derivative of o w.r.t. the name v at val (a zero block when the discipline does not read v)
Partial(I, val, o, v) ==
  LET d == Prod(I.D, o)
  IN  IF v \notin I.D[d].ins THEN Zero(Sz(I, o), Sz(I, v))
      ELSE IF I.D[d].kind = "sq" THEN MScaleCols(I.J[o][v], MkV(Sz(I, v), LAMBDA k : 2 * val[v][k]))
      ELSE I.J[o][v]
PRow(I, val, o, seq) == HCatAll(TLCEval([k \in 1..Len(seq) |-> Partial(I, val, o, seq[k])]))

\* a function result: value, denominators (componentwise; 1 unless normalised), Jacobian block per variable
\* free[k]: the scale of component k is unspecified (any finite positive constant); den[k] = 1 there
FnS(v, d, j, fr) == [val |-> v, den |-> d, jac |-> j, free |-> fr]
Fn(v, d, j) == FnS(v, d, j, MkV(Len(v), LAMBDA k : FALSE))
Ones(n) == MkV(n, LAMBDA k : 1)
\* stack a non-empty sequence of function results over the variables vs
Stack(rs, vs) ==
  FnS(VecCat(TLCEval([k \in 1..Len(rs) |-> rs[k].val])), VecCat(TLCEval([k \in 1..Len(rs) |-> rs[k].den])),
      TLCEval([v \in vs |-> VCatAll(TLCEval([k \in 1..Len(rs) |-> rs[k].jac[v]]))]),
      VecCat(TLCEval([k \in 1..Len(rs) |-> rs[k].free])))
Split(I, M, o, seq) == TLCEval([v \in SeqSet(seq) |-> SubMat(M, 0, NRows(M), OffsetOf(I.size, seq, v), Sz(I, v))])

\* inputs that are not couplings: from the point when the formulation optimises them, else the default
BaseVal(I, pt) == TLCEval([v \in AllIns(I.D) |-> IF v \in DOMAIN pt THEN pt[v] ELSE I.dflt[v]])

(* the multidisciplinary solution: y = b + B y  over all couplings *)
Solve(I, val) ==
  IF I.C = <<>> THEN val
  ELSE LET C == I.C
           b == VecCat(TLCEval([k \in 1..Len(C) |->
                  LET o == C[k]
                      nin == Sorted(I.D[Prod(I.D, o)].ins \ CplI(I))
                  IN  VSumSeq(TLCEval([j \in 1..Len(nin) |-> MVec(I.J[o][nin[j]], val[nin[j]])]), I.c0[o])]))
           y == MVec(I.inv, b)
       IN  TLCEval([v \in DOMAIN val |-> IF v \in CplI(I) THEN SubVec(y, OffsetOf(I.size, C, v), Sz(I, v)) ELSE val[v]])

----------------------------------------------------------------------------
(* user space variants, design-variable sets                               *)
GSpace(I, gsv) == IF gsv = "full" THEN I.space
                  ELSE IF gsv = "nocpl" THEN Filter(I.space, SeqSet(I.space) \ CplI(I))
                  ELSE Filter(I.space, SeqSet(I.space) \ WeakC(I.D))
Variants(I) == {"full"} \cup (IF I.C # <<>> THEN {"nocpl"} ELSE {}) \cup (IF WeakC(I.D) # {} /\ StrongC(I.D) # {} THEN {"noweak"} ELSE {})

(* design-space catalogue, bounds of the COUPLING variables (the design variables keep their bounds):  *)
(* "fin": both dyadic bounds of the instance on every component; "open": no bound at all; "half": per  *)
(* component (by name, position and seed) both bounds, the lower one only or the upper one only.       *)
BKind(I, v, k, bnd) == IF bnd = "fin" \/ v \notin CplI(I) THEN "both"
                       ELSE IF bnd = "open" THEN "none"
                       ELSE <<"lo", "hi", "both">>[((Idx(v) + k + I.key[4]) % 3) + 1]
HasLb(I, v, k, bnd) == BKind(I, v, k, bnd) \in {"both", "lo"}
HasUb(I, v, k, bnd) == BKind(I, v, k, bnd) \in {"both", "hi"}
FiniteWidth(I, v, k, bnd) == BKind(I, v, k, bnd) = "both"
BoundsOf(I, G, bnd) == TLCEval([v \in SeqSet(G) |->
                          [haslb |-> MkV(Sz(I, v), LAMBDA k : HasLb(I, v, k, bnd)),
                           hasub |-> MkV(Sz(I, v), LAMBDA k : HasUb(I, v, k, bnd))]])

Read(I) == AllIns(I.D)
Unused(I, G) == SeqSet(G) \ Read(I)
Params(I) == (Read(I) \ CplI(I)) \ SeqSet(I.space)
MDFSpace(I, G) == Filter(G, (SeqSet(G) \ CplI(I)) \cap Read(I))
IDFAdmissible(I, G) == CplI(I) \subseteq SeqSet(G)
IDFSpace(I, G) == G
DOptEnabled(I) == /\ StrongC(I.D) = {}
                  /\ \A d, e \in 1..Len(I.D) : (e >= d) => (I.D[e].outs \cap I.D[d].ins = {})
ChainIn(I) == UNION {I.D[d].ins \ UNION {I.D[j].outs : j \in 1..(d - 1)} : d \in 1..Len(I.D)}
DOptSpace(I, G) == Filter(G, ChainIn(I))

----------------------------------------------------------------------------
(* lattice points                                                          *)
NPts == 2
\* design point number k: a value for every non-coupling variable of the user space
XPt(I, k) == TLCEval([v \in SeqSet(I.space) \ CplI(I) |->
                IF I.hasopt /\ k = 1 /\ v \in DOMAIN I.xopt THEN I.xopt[v] ELSE GenV(v, I.key[4] + k, 4 + k, Sz(I, v), 2)])
Restrict(f, S) == TLCEval([v \in S |-> f[v]])

NY(I) == DimOf(I.size, I.C)
\* displacements of the coupling vector around y*: 0, +e_k, -e_k, (1..1)
Deltas(I) == IF I.C = <<>> THEN << <<>> >>
             ELSE LET n == NY(I) IN
                  << ZeroV(n) >> \o [k \in 1..n |-> MkV(n, LAMBDA r : IF r = k THEN 1 ELSE 0)]
                                 \o [k \in 1..n |-> MkV(n, LAMBDA r : IF r = k THEN -1 ELSE 0)]
                                 \o << MkV(n, LAMBDA r : 1) >>
\* the displacements printed for the replay: 0, (1..1), +e_k, -e_j (k, j depend on the point)
EmitDeltas(I, k) == IF I.C = <<>> THEN <<1>>
                    ELSE LET n == NY(I) IN <<1, 2 * n + 2, 2 + ((k + I.key[4]) % n), 2 + n + ((2 * k + 1 + I.key[4]) % n)>>
Shift(I, val, dl) == TLCEval([v \in DOMAIN val |-> IF v \in CplI(I)
                                 THEN VAdd(val[v], SubVec(dl, OffsetOf(I.size, I.C, v), Sz(I, v))) ELSE val[v]])

----------------------------------------------------------------------------
(* input masks: which components of the formulation's design vector feed discipline d            *)
(* (BaseFormulation.get_x_names_of_disc / get_x_mask_x_swap_order: names in the order of the     *)
(* design space, 0-based positions)                                                              *)
MaskOf(I, space, d) ==
  LET ns == Filter(space, I.D[d].ins)
  IN  [names |-> ns,
       idx |-> VecCat(TLCEval([k \in 1..Len(ns) |-> MkV(Sz(I, ns[k]), LAMBDA j : OffsetOf(I.size, space, ns[k]) + j - 1)]))]
Masks(I, space) == TLCEval([d \in 1..Len(I.D) |-> MaskOf(I, space, d)])

(* IDF(start_at_equilibrium): the current value of every coupling becomes its value at the       *)
(* multidisciplinary solution for the CURRENT design variables of the design space (unspecified  *)
(* when that value is outside the bounds the coupling has: inb).  dfl: the couplings of the      *)
(* multidisciplinary solution at the DEFAULT inputs of the disciplines - what the start is NOT   *)
(* (FalseClaimEquilibriumOfTheDefaults), recorded so that the replay can count the cases where   *)
(* the two differ.                                                                               *)
Equilibrium(I, G, bnd) ==
  LET xp == TLCEval([v \in SeqSet(G) \ CplI(I) |-> I.cur[v]])
      sol == Solve(I, BaseVal(I, xp))
      sold == Solve(I, BaseVal(I, <<>>))
      cur == TLCEval([v \in SeqSet(G) |-> IF v \in CplI(I) THEN sol[v] ELSE I.cur[v]])
  IN  [inb |-> \A v \in CplI(I) : \A k \in 1..Sz(I, v) :
                  /\ (HasLb(I, v, k, bnd) => I.lb[v][k] <= cur[v][k])
                  /\ (HasUb(I, v, k, bnd) => cur[v][k] <= I.ub[v][k]),
       cur |-> cur,
       dfl |-> TLCEval([v \in CplI(I) |-> sold[v]])]
NoEq == [inb |-> FALSE, cur |-> <<>>, dfl |-> <<>>]
\* the start point of the formulation: the current value of its design space after construction
StartPoint(I, G, eq, bnd) == IF eq THEN Equilibrium(I, G, bnd).cur ELSE TLCEval([v \in SeqSet(G) |-> I.cur[v]])

----------------------------------------------------------------------------
(* MDF *)
MDFFn(I, val, X, o) ==
  LET px == PRow(I, val, o, X)
      tot == IF I.C = <<>> THEN px
             ELSE MAdd(px, MMul(PRow(I, val, o, I.C), MMul(I.inv, BlockOf(I, I.C, X))))
  IN  Fn(EvalOut(I, val, o), Ones(Sz(I, o)), Split(I, tot, o, X))
UserCons(I, F(_), vs) == TLCEval([k \in 1..Len(I.cons) |->
                            Stack(TLCEval([j \in 1..Len(I.cons[k]) |-> F(I.cons[k][j])]), vs)])
MDFPoint(I, X, xp) ==
  LET val == Solve(I, BaseVal(I, xp))
  IN  [x |-> Restrict(xp, SeqSet(X)), obj |-> MDFFn(I, val, X, I.obj),
       cons |-> UserCons(I, LAMBDA o : MDFFn(I, val, X, o), SeqSet(X)), ncc |-> 0]
MDFCase(I, G) ==
  LET X == MDFSpace(I, G)
  IN  [space |-> X, maydrop |-> {}, masks |-> Masks(I, X), eq |-> NoEq, subs |-> <<>>, bounds |-> <<>>, start |-> <<>>,
       pts |-> TLCEval([k \in 1..NPts |-> MDFPoint(I, X, XPt(I, k))])]

(* IDF: pt assigns every variable of the space; inputs outside the space keep their default *)
IDFFn(I, val, G, o) == Fn(EvalOut(I, val, o), Ones(Sz(I, o)), TLCEval([v \in SeqSet(G) |-> Partial(I, val, o, v)]))
Producers(I) == SelectSeq([d \in 1..Len(I.D) |-> d], LAMBDA d : I.D[d].outs \cap CplI(I) # {})
\* normalize_constraints: a component is divided by the width ub - lb of its coupling target when that width is
\* finite; without a finite width its scale is unspecified (free)
Consistency(I, val, G, norm, bnd, d) ==
  LET oc == Sorted(I.D[d].outs \cap CplI(I))
      one(o) == FnS(VSub(EvalOut(I, val, o), val[o]),
                    MkV(Sz(I, o), LAMBDA k : IF norm /\ FiniteWidth(I, o, k, bnd) THEN I.ub[o][k] - I.lb[o][k] ELSE 1),
                    TLCEval([v \in SeqSet(G) |-> IF v = o THEN MSub(Partial(I, val, o, v), Ident(Sz(I, o)))
                                                 ELSE Partial(I, val, o, v)]),
                    MkV(Sz(I, o), LAMBDA k : norm /\ ~FiniteWidth(I, o, k, bnd)))
  IN  Stack(TLCEval([k \in 1..Len(oc) |-> one(oc[k])]), SeqSet(G))
IDFPoint(I, G, norm, bnd, pt) ==
  LET val == BaseVal(I, pt)
      pr == Producers(I)
  IN  [x |-> pt, obj |-> IDFFn(I, val, G, I.obj),
       cons |-> TLCEval([k \in 1..Len(pr) |-> Consistency(I, val, G, norm, bnd, pr[k])])
                \o UserCons(I, LAMBDA o : IDFFn(I, val, G, o), SeqSet(G)),
       ncc |-> Len(pr)]
\* the point of the IDF space above the design point xp, displaced by dl from the multidisciplinary solution
IDFAt(I, G, xp, dl) ==
  LET sol == Shift(I, Solve(I, BaseVal(I, xp)), dl)
  IN  TLCEval([v \in SeqSet(G) |-> IF v \in CplI(I) THEN sol[v] ELSE xp[v]])
\* (par does not appear: the execution strategy changes nothing of what the formulation exposes; eq only moves the
\*  start point)
IDFCase(I, G, norm, eq, bnd) ==
  [space |-> IDFSpace(I, G), maydrop |-> Unused(I, G), masks |-> Masks(I, IDFSpace(I, G)), eq |-> Equilibrium(I, G, bnd),
   subs |-> <<>>, bounds |-> BoundsOf(I, G, bnd), start |-> StartPoint(I, G, eq, bnd),
   pts |-> VCatAll(TLCEval([k \in 1..NPts |->
             LET ed == EmitDeltas(I, k)
             IN  TLCEval([j \in 1..Len(ed) |-> IDFPoint(I, G, norm, bnd, IDFAt(I, G, XPt(I, k), Deltas(I)[ed[j]]))])]))]

(* DOPT: forward propagation through the listing; st = [val, row], row[v][x] = d v / d x *)
RECURSIVE Fwd(_, _, _, _)
Fwd(I, X, k, st) ==
  IF k > Len(I.D) THEN st
  ELSE LET d == I.D[k]
           ins == Sorted(d.ins)
           nv(o) == EvalOut(I, st.val, o)
           nr(o) == TLCEval([x \in SeqSet(X) |->
                      MSumSeq(TLCEval([j \in 1..Len(ins) |-> MMul(Partial(I, st.val, o, ins[j]), st.row[ins[j]][x])]),
                              Zero(Sz(I, o), Sz(I, x)))])
       IN  Fwd(I, X, k + 1,
               [val |-> TLCEval([v \in DOMAIN st.val |-> IF v \in d.outs THEN nv(v) ELSE st.val[v]]),
                row |-> TLCEval([v \in DOMAIN st.row |-> IF v \in d.outs THEN nr(v) ELSE st.row[v]])])
DOptPoint(I, X, xp) ==
  LET all == AllIns(I.D) \cup AllOuts(I.D)
      bv == BaseVal(I, xp)
      st0 == [val |-> TLCEval([v \in all |-> IF v \in AllIns(I.D) THEN bv[v] ELSE ZeroV(Sz(I, v))]),
              row |-> TLCEval([v \in all |-> TLCEval([x \in SeqSet(X) |->
                         IF v = x THEN Ident(Sz(I, v)) ELSE Zero(Sz(I, v), Sz(I, x))])])]
      st == Fwd(I, X, 1, st0)
      F(o) == Fn(st.val[o], Ones(Sz(I, o)), st.row[o])
  IN  [x |-> Restrict(xp, SeqSet(X)), obj |-> F(I.obj), cons |-> UserCons(I, F, SeqSet(X)), ncc |-> 0]
DOptCase(I, G) ==
  LET X == DOptSpace(I, G)
  IN  [space |-> X, maydrop |-> {}, masks |-> Masks(I, X), eq |-> NoEq, subs |-> <<>>, bounds |-> <<>>, start |-> <<>>,
       pts |-> TLCEval([k \in 1..NPts |-> DOptPoint(I, X, XPt(I, k))])]

(* BILEVEL (variable sets only): every discipline that has LOCAL design variables (read by no   *)
(* other discipline) becomes a sub-scenario optimising them; the system level keeps the other   *)
(* design variables that some discipline reads; couplings and unread variables are removed.     *)
(* Stated for systems whose couplings are all strong (what BiLevel does with a weak coupling of *)
(* the user space depends on the order of its inner chain and is not part of the property).     *)
Locals(I, G, d) == Filter(G, {v \in (SeqSet(G) \ CplI(I)) \cap I.D[d].ins :
                                \A e \in 1..Len(I.D) : (e # d) => (v \notin I.D[e].ins)})
AllLocals(I, G) == UNION {SeqSet(Locals(I, G, d)) : d \in 1..Len(I.D)}
BiLevelEnabled(I) == WeakC(I.D) = {} /\ StrongC(I.D) # {} /\ AllLocals(I, I.space) # {}
BiLevelCase(I, G) ==
  [space |-> Filter(G, SeqSet(MDFSpace(I, G)) \ AllLocals(I, G)), maydrop |-> {}, masks |-> <<>>, eq |-> NoEq,
   subs |-> TLCEval([d \in 1..Len(I.D) |-> Locals(I, G, d)]), bounds |-> <<>>, start |-> <<>>, pts |-> <<>>]

----------------------------------------------------------------------------
(* behaviours                                                              *)
EmptyRes == [space |-> <<>>, maydrop |-> {}, masks |-> <<>>, eq |-> NoEq, subs |-> <<>>, bounds |-> <<>>, start |-> <<>>,
             pts |-> <<>>]
NoForm == [F |-> "-", gsv |-> "-", norm |-> FALSE, eq |-> FALSE, par |-> "seq", bnd |-> "fin"]

Init ==
  /\ \/ \E t \in Topos, p \in Profiles :
          /\ p < 2 ^ Cardinality(TNames(Topo(t)))
          /\ SizeOf(Topo(t), p)[Topo(t).obj] = 1
          /\ \E ch \in Choices :
               /\ ch < NCat ^ Len(PairSeq(Topo(t).D))
               /\ \E sd \in Seeds : (inst = BuildInst(t, p, ch, sd) /\ inst.det \in {1, -1})
     \/ \E q \in Quads : inst = QuadInst(q)
  /\ phase = "new"
  /\ form = NoForm
  /\ res = EmptyRes

Admissible(I, F, G) == IF F = "IDF" THEN IDFAdmissible(I, G) ELSE IF F = "DOPT" THEN DOptEnabled(I)
                       ELSE IF F = "BILEVEL" THEN BiLevelEnabled(I) ELSE TRUE

(* which option combinations of IDF are enumerated for an instance: the plain one (started at the current *)
(* value, sequential, bounded couplings) always, with and without normalisation; every other one for one  *)
(* instance in OptMod (all of them when OptMod = 1), the multiprocessing ones for one in OptMod * MpMod;   *)
(* the hand-written optimum instances take every sequential / threaded combination.                       *)
KeyHash(k) == Idx(IF k[1] = "quad" THEN "a" ELSE "c") + k[2] * 3 + k[3] * 5 + k[4] * 7
OptIdx(norm, eq, par, bnd) == (IF norm THEN 1 ELSE 0) + 2 * (IF eq THEN 1 ELSE 0)
                              + 4 * (IF par = "seq" THEN 0 ELSE IF par = "thr" THEN 1 ELSE 2)
                              + 12 * (IF bnd = "fin" THEN 0 ELSE IF bnd = "open" THEN 1 ELSE 2)
OptSel(I, norm, eq, par, bnd) ==
  LET i == OptIdx(norm, eq, par, bnd)
      h == KeyHash(I.key) * 5 + i * 7 + (i \div 8) * 3
  IN  \/ (~eq /\ par = "seq" /\ bnd = "fin")
      \/ (I.hasopt /\ par # "mp")
      \/ (h % OptMod = 0 /\ ((par = "mp") => ((h \div OptMod) % MpMod = 0)))

Build(F, gsv, norm, eq, par, bnd) ==
  /\ phase = "new"
  /\ gsv \in Variants(inst)
  /\ ((F # "IDF") => (~norm /\ ~eq /\ par = "seq" /\ bnd = "fin"))
  /\ Admissible(inst, F, GSpace(inst, gsv))
  /\ ((F = "IDF") => OptSel(inst, norm, eq, par, bnd))
  /\ (eq => Equilibrium(inst, GSpace(inst, gsv), bnd).inb)
  /\ phase' = "built"
  /\ form' = [F |-> F, gsv |-> gsv, norm |-> norm, eq |-> eq, par |-> par, bnd |-> bnd]
  /\ res' = (IF F = "MDF" THEN MDFCase(inst, GSpace(inst, gsv))
             ELSE IF F = "IDF" THEN IDFCase(inst, GSpace(inst, gsv), norm, eq, bnd)
             ELSE IF F = "BILEVEL" THEN BiLevelCase(inst, GSpace(inst, gsv))
             ELSE DOptCase(inst, GSpace(inst, gsv)))
  /\ UNCHANGED inst

Reject(F, gsv) ==
  /\ phase = "new"
  /\ gsv \in Variants(inst)
  /\ ~Admissible(inst, F, GSpace(inst, gsv))
  /\ phase' = "rejected"
  /\ form' = [NoForm EXCEPT !.F = F, !.gsv = gsv]
  /\ res' = EmptyRes
  /\ UNCHANGED inst

Next == \E F \in {"MDF", "IDF", "DOPT", "BILEVEL"}, gsv \in {"full", "nocpl", "noweak"} :
          \/ \E norm \in BOOLEAN, eq \in Eqs, par \in Pars, bnd \in Bnds : Build(F, gsv, norm, eq, par, bnd)
          \/ Reject(F, gsv)

Spec == Init /\ [][Next]_vars

----------------------------------------------------------------------------
(* the slice is what it claims to be                                       *)
IsPow2(n) == n \in {2 ^ k : k \in 0..12}
WellFormed ==
  LET S == inst.D IN
  /\ inst.det \in {1, -1}
  /\ \A d, e \in 1..Len(S) : (d # e) => (S[d].outs \cap S[e].outs = {})
  /\ \A d \in 1..Len(S) : (S[d].kind = "sq") => (S[d].outs \cap Cpl(S) = {})
  /\ inst.obj \in AllOuts(S) /\ inst.size[inst.obj] = 1
  /\ \A k \in 1..Len(inst.cons) : \A j \in 1..Len(inst.cons[k]) :
        (inst.cons[k][j] \in AllOuts(S) /\ Prod(S, inst.cons[k][j]) = Prod(S, inst.cons[k][1]))
  /\ \A o \in AllOuts(S) : \A i \in S[Prod(S, o)].ins : IsMat(inst.J[o][i], inst.size[o], inst.size[i])
  /\ \A v \in SeqSet(inst.space) : (Len(inst.lb[v]) = inst.size[v] /\ Len(inst.ub[v]) = inst.size[v]
                                    /\ Len(inst.cur[v]) = inst.size[v])
  /\ Cpl(S) \subseteq SeqSet(inst.space)
  /\ SeqSet(inst.space) \cap AllOuts(S) \subseteq Cpl(S)
  /\ MDFSpace(inst, inst.space) # <<>>
  /\ (inst.C # <<>>) => (MMul(inst.inv, MSub(Ident(NY(inst)), inst.B)) = Ident(NY(inst)))
DyadicBounds ==
  \A v \in SeqSet(inst.space) : \A k \in 1..inst.size[v] :
     (inst.lb[v][k] < inst.ub[v][k] /\ IsPow2(inst.ub[v][k] - inst.lb[v][k])
      /\ inst.lb[v][k] <= inst.cur[v][k] /\ inst.cur[v][k] <= inst.ub[v][k])

(* SpacesExact: each formulation keeps exactly the variables it optimises *)
SpacesExact ==
  (phase = "built") =>
    LET G == GSpace(inst, form.gsv)
        X == SeqSet(res.space)
    IN  /\ SeqSet(MDFSpace(inst, G)) \cap CplI(inst) = {}
        /\ SeqSet(MDFSpace(inst, G)) \cup (CplI(inst) \cap SeqSet(G)) \cup Unused(inst, G) = SeqSet(G)
        /\ (form.F = "MDF") => (X = (SeqSet(G) \ CplI(inst)) \ Unused(inst, G))
        /\ (form.F = "IDF") => (CplI(inst) \subseteq X /\ ((X \ CplI(inst)) \ Unused(inst, G)) = SeqSet(MDFSpace(inst, G))
                                /\ res.maydrop = Unused(inst, G))
        /\ (form.F = "DOPT") => (res.space = MDFSpace(inst, G))
        /\ (form.F = "BILEVEL") =>
              LET loc == UNION {SeqSet(res.subs[d]) : d \in 1..Len(inst.D)}
              IN  /\ X \cap loc = {} /\ X \cup loc = SeqSet(MDFSpace(inst, G))
                  /\ \A d, e \in 1..Len(inst.D) : (d # e) => (SeqSet(res.subs[d]) \cap SeqSet(res.subs[e]) = {})
                  /\ \A d \in 1..Len(inst.D) : SeqSet(res.subs[d]) \subseteq inst.D[d].ins
        /\ res.space = Filter(G, X)                       \* the order of the user space is kept
RejectExact ==
  (phase = "rejected") =>
     \/ (form.F = "IDF" /\ CplI(inst) \ SeqSet(GSpace(inst, form.gsv)) # {})
     \/ (form.F = "DOPT" /\ ~DOptEnabled(inst))
     \/ (form.F = "BILEVEL" /\ ~BiLevelEnabled(inst))

AllZeroC(p) == \A c \in 1..p.ncc : VIsZero(p.cons[c].val)
(* MasksCover: every component of the design vector feeds some discipline, except the variables *)
(* IDF may keep although nothing reads them; no mask reaches outside the vector                  *)
MasksCover ==
  (phase = "built" /\ form.F # "BILEVEL") =>
    LET n == DimOf(inst.size, res.space)
        hit == UNION {SeqSet(res.masks[d].idx) : d \in 1..Len(inst.D)}
        free == UNION {{OffsetOf(inst.size, res.space, u) + j - 1 : j \in 1..inst.size[u]} : u \in res.maydrop}
    IN  /\ hit \subseteq 0..(n - 1)
        /\ hit \cup free = 0..(n - 1)
        /\ hit \cap free = {}

(* StartsAtEquilibrium: the start point of IDF keeps the current design values; with              *)
(* start_at_equilibrium its coupling targets are the multidisciplinary solution AT THOSE design   *)
(* values: every consistency constraint vanishes at the start point, which respects the bounds    *)
(* the couplings have; without the option the design space is left as the user gave it.           *)
StartsAtEquilibrium ==
  (phase = "built" /\ form.F = "IDF") =>
    LET G == GSpace(inst, form.gsv)
        p == IDFPoint(inst, G, form.norm, form.bnd, res.start)
        q == IDFPoint(inst, G, form.norm, form.bnd, res.eq.cur)
    IN  /\ DOMAIN res.start = SeqSet(G)
        /\ (\A v \in SeqSet(G) \ CplI(inst) : (res.start[v] = inst.cur[v] /\ res.eq.cur[v] = inst.cur[v]))
        /\ AllZeroC(q)
        /\ (form.eq => (AllZeroC(p) /\ res.eq.inb /\ res.start = res.eq.cur))
        /\ ((~form.eq) => (\A v \in SeqSet(G) : res.start[v] = inst.cur[v]))
        /\ (\A v \in SeqSet(G) : \A k \in 1..inst.size[v] :
              /\ (res.bounds[v].haslb[k] => inst.lb[v][k] <= res.start[v][k])
              /\ (res.bounds[v].hasub[k] => res.start[v][k] <= inst.ub[v][k]))
(* ScalesDefined: every component of every consistency constraint is divided by a finite positive *)
(* constant: 1 without normalize_constraints, the width of its coupling target when that width is *)
(* finite, unspecified (free) otherwise; the design variables always keep both bounds.            *)
ScalesDefined ==
  (phase = "built" /\ form.F = "IDF") =>
    /\ (\A k \in 1..Len(res.pts) : \A c \in 1..Len(res.pts[k].cons) :
          LET f == res.pts[k].cons[c]
          IN  /\ Len(f.den) = Len(f.val) /\ Len(f.free) = Len(f.val)
              /\ (\A r \in 1..Len(f.val) :
                    /\ f.den[r] > 0
                    /\ (f.free[r] => (form.norm /\ form.bnd # "fin" /\ c <= res.pts[k].ncc /\ f.den[r] = 1))
                    /\ ((~form.norm \/ c > res.pts[k].ncc) => (f.den[r] = 1 /\ ~f.free[r]))))
    /\ (\A v \in SeqSet(res.space) \ CplI(inst) : \A k \in 1..inst.size[v] :
          (res.bounds[v].haslb[k] /\ res.bounds[v].hasub[k]))
    /\ ((form.bnd = "fin") => (\A v \in SeqSet(res.space) : \A k \in 1..inst.size[v] :
          (res.bounds[v].haslb[k] /\ res.bounds[v].hasub[k])))
    /\ ((form.bnd = "open") => (\A v \in CplI(inst) : \A k \in 1..inst.size[v] :
          (~res.bounds[v].haslb[k] /\ ~res.bounds[v].hasub[k])))

SameFn(a, b, vs) == a.val = b.val /\ \A v \in vs : a.jac[v] = b.jac[v]

(* SameValues: IDF at consistent couplings exposes the objective and constraint values of MDF *)
SameValues ==
  (phase = "built" /\ form.F = "IDF") =>
    LET G == GSpace(inst, form.gsv)
        X == MDFSpace(inst, G)
    IN  \A k \in 1..NPts :
          LET m == MDFPoint(inst, X, XPt(inst, k))
              i == IDFPoint(inst, G, form.norm, form.bnd, IDFAt(inst, G, XPt(inst, k), Deltas(inst)[1]))
          IN  /\ i.obj.val = m.obj.val
              /\ \A c \in 1..Len(inst.cons) : i.cons[i.ncc + c].val = m.cons[c].val

(* ConsistencyVanishes: exactly at the multidisciplinary solution, nowhere else on the lattice *)
AllZero(p) == AllZeroC(p)
ConsistencyVanishes ==
  (phase = "built" /\ form.F = "IDF") =>
    LET G == GSpace(inst, form.gsv)
        dls == Deltas(inst)
    IN  \A k \in 1..NPts : \A j \in 1..Len(dls) :
          (AllZero(IDFPoint(inst, G, form.norm, form.bnd, IDFAt(inst, G, XPt(inst, k), dls[j]))) <=> (j = 1))

(* ConsistentDerivatives: dMDF/dx = dIDF/dx - dIDF/dy (dc/dy)^-1 dc/dx at consistent couplings   *)
(* (numerators: the row scaling of a normalised c cancels)                                        *)
Reduced(I, p, fr, X) ==
  LET C == I.C
      row(r, seq) == HCatAll(TLCEval([k \in 1..Len(seq) |-> r.jac[seq[k]]]))
      cy == VCatAll(TLCEval([c \in 1..p.ncc |-> row(p.cons[c], C)]))
      cx == VCatAll(TLCEval([c \in 1..p.ncc |-> row(p.cons[c], X)]))
  IN  IF C = <<>> THEN row(fr, X)
      ELSE MSub(row(fr, X), MMul(row(fr, C), MMul(InvUnimod(cy), cx)))
ConsistentDerivatives ==
  (phase = "built" /\ form.F = "IDF") =>
    LET G == GSpace(inst, form.gsv)
        X == MDFSpace(inst, G)
        row(r) == HCatAll(TLCEval([k \in 1..Len(X) |-> r.jac[X[k]]]))
    IN  \A k \in 1..NPts :
          LET m == MDFPoint(inst, X, XPt(inst, k))
              i == IDFPoint(inst, G, form.norm, form.bnd, IDFAt(inst, G, XPt(inst, k), Deltas(inst)[1]))
          IN  /\ Reduced(inst, i, i.obj, X) = row(m.obj)
              /\ \A c \in 1..Len(inst.cons) : Reduced(inst, i, i.cons[i.ncc + c], X) = row(m.cons[c])
              /\ \A u \in Unused(inst, G) : IsZero(i.obj.jac[u])

(* DOptAgrees: without strong couplings the disciplinary formulation is the MDF problem *)
DOptAgrees ==
  (phase = "built" /\ form.F = "DOPT") =>
    LET G == GSpace(inst, form.gsv)
        m == MDFCase(inst, G)
    IN  /\ res.space = m.space
        /\ \A k \in 1..NPts :
             /\ res.pts[k].x = m.pts[k].x
             /\ SameFn(res.pts[k].obj, m.pts[k].obj, SeqSet(m.space))
             /\ \A c \in 1..Len(inst.cons) : SameFn(res.pts[k].cons[c], m.pts[k].cons[c], SeqSet(m.space))

(* FALSE on purpose (refuted by TLC in the check): off the multidisciplinary solution IDF still  *)
(* exposes the MDF objective and constraint values - shows that SameValues is not vacuous.       *)
FalseClaimSameValuesOffSolution ==
  (phase = "built" /\ form.F = "IDF" /\ inst.C # <<>>) =>
    LET G == GSpace(inst, form.gsv)
        X == MDFSpace(inst, G)
    IN  \A k \in 1..NPts : \A j \in 1..Len(Deltas(inst)) :
          LET m == MDFPoint(inst, X, XPt(inst, k))
              i == IDFPoint(inst, G, form.norm, form.bnd, IDFAt(inst, G, XPt(inst, k), Deltas(inst)[j]))
          IN  i.obj.val = m.obj.val /\ \A c \in 1..Len(inst.cons) : i.cons[i.ncc + c].val = m.cons[c].val
(* FALSE on purpose: the partial derivative of the IDF objective w.r.t. the design variables is  *)
(* the MDF total derivative (i.e. the coupling term of ConsistentDerivatives is superfluous).    *)
FalseClaimPartialIsTotal ==
  (phase = "built" /\ form.F = "IDF" /\ inst.C # <<>>) =>
    LET G == GSpace(inst, form.gsv)
        X == MDFSpace(inst, G)
    IN  \A k \in 1..NPts :
          LET m == MDFPoint(inst, X, XPt(inst, k))
              i == IDFPoint(inst, G, form.norm, form.bnd, IDFAt(inst, G, XPt(inst, k), Deltas(inst)[1]))
          IN  \A v \in SeqSet(X) : i.obj.jac[v] = m.obj.jac[v]

(* FALSE on purpose: the couplings of the multidisciplinary solution at the DEFAULT inputs of the *)
(* disciplines are an equilibrium start for the CURRENT design values of the design space (what   *)
(* an MDA run without the current design values computes).                                        *)
FalseClaimEquilibriumOfTheDefaults ==
  (phase = "built" /\ form.F = "IDF" /\ inst.C # <<>>) =>
    LET G == GSpace(inst, form.gsv)
        st == TLCEval([v \in SeqSet(G) |-> IF v \in CplI(inst) THEN res.eq.dfl[v] ELSE inst.cur[v]])
    IN  AllZeroC(IDFPoint(inst, G, form.norm, form.bnd, st))

(* ResultsAreValues: what a formulation exposes at a point is a VALUE determined by the instance,  *)
(* the formulation and that point alone - whatever was evaluated before or is evaluated later      *)
(* (the replay evaluates every point of a case first, keeps every returned array, evaluates the    *)
(* first point again, and only then compares each kept array with its record here).                *)
PointAlone(k) == IF form.F = "MDF" THEN MDFPoint(inst, res.space, XPt(inst, k))
                 ELSE DOptPoint(inst, res.space, XPt(inst, k))
ResultsAreValues ==
  (phase = "built" /\ form.F \in {"MDF", "DOPT"}) => \A k \in 1..NPts : res.pts[k] = PointAlone(k)
\* the Jacobian records of two points of the case differ (then a kept result can be told from a later one)
JacVaries ==
  /\ Len(res.pts) >= 2
  /\ \E k \in 2..Len(res.pts) :
        \/ res.pts[k].obj.jac # res.pts[1].obj.jac
        \/ \E c \in 1..Len(res.pts[k].cons) : res.pts[k].cons[c].jac # res.pts[1].cons[c].jac

(* OptimumKnown: on the quadratic instances xopt is THE minimiser of the MDF problem: interior,  *)
(* zero total gradient, weights >= 0 and positive definite Hessian 2 R' W R (R = dr/dx total),  *)
(* user constraints (g <= 0) strictly inactive.                                                  *)
OptPoint(I) == MDFPoint(I, MDFSpace(I, I.space), XPt(I, 1))
OptimumKnown ==
  inst.hasopt =>
    LET X == MDFSpace(inst, inst.space)
        m == OptPoint(inst)
        val == Solve(inst, BaseVal(inst, XPt(inst, 1)))
        w == inst.J[inst.obj]["r"][1]
        R == HCatAll(TLCEval([k \in 1..Len(X) |-> MDFFn(inst, val, X, "r").jac[X[k]]]))
        H == MMul(MT(R), Mk(NRows(R), NCols(R), LAMBDA a, b : 2 * w[a] * R[a][b]))
    IN  /\ \A v \in SeqSet(X) : (m.obj.jac[v] = Zero(1, inst.size[v])
                                 /\ \A k \in 1..inst.size[v] : (inst.lb[v][k] < m.x[v][k] /\ m.x[v][k] < inst.ub[v][k]))
        /\ \A k \in 1..Len(w) : w[k] >= 0
        /\ PosDef(H)
        /\ \A c \in SeqSet(inst.C) : \A k \in 1..inst.size[c] : (inst.lb[c][k] < val[c][k] /\ val[c][k] < inst.ub[c][k])
        /\ \A c \in 1..Len(m.cons) : \A k \in 1..Len(m.cons[c].val) : m.cons[c].val[k] < 0

----------------------------------------------------------------------------
(* records for the replay on the real classes                              *)
FormHash(f) == (IF f.F = "MDF" THEN 0 ELSE IF f.F = "IDF" THEN 1 ELSE IF f.F = "DOPT" THEN 2 ELSE 4)
               + (IF f.gsv = "full" THEN 0 ELSE IF f.gsv = "nocpl" THEN 3 ELSE 5) + OptIdx(f.norm, f.eq, f.par, f.bnd)
\* the MDA classes that reach y* on the slice: Newton solves the linear system in one step; the fixed-point
\* sweeps terminate (exactly) iff B is nilpotent; MDANewtonRaphson as the main MDA refuses weakly coupled
\* disciplines (documented), MDAChain delegates every strongly coupled group to the inner class
AllStrong(I) == \A d \in 1..Len(I.D) : Merged(I.D, Group(I.D, d))
Solvers(I) == IF I.nilp THEN {"MDAJacobi", "MDAGaussSeidel", "MDANewtonRaphson"} ELSE {"MDANewtonRaphson"}
MDAConfs(I) == {<<"MDAChain", s>> : s \in Solvers(I)}
               \cup {<<s, "-">> : s \in Solvers(I) \ {"MDANewtonRaphson"}}
               \cup (IF AllStrong(I) THEN {<<"MDANewtonRaphson", "-">>} ELSE {})
EmitOK ==
  IF ~Emit THEN TRUE
  ELSE IF phase = "new"
  THEN PrintT(<<"INST", inst.key,
                [D |-> inst.D, space |-> inst.space, obj |-> inst.obj, cons |-> inst.cons, size |-> inst.size,
                 J |-> inst.J, c0 |-> inst.c0, dflt |-> inst.dflt, cur |-> inst.cur, lb |-> inst.lb, ub |-> inst.ub,
                 declin |-> inst.declin, nilp |-> inst.nilp, solvers |-> Solvers(inst), C |-> inst.C,
                 strong |-> StrongC(inst.D), params |-> Params(inst), mdas |-> MDAConfs(inst),
                 hasopt |-> inst.hasopt,
                 opt |-> IF inst.hasopt THEN [x |-> OptPoint(inst).x, f |-> OptPoint(inst).obj.val] ELSE [x |-> <<>>, f |-> <<>>]]>>)
  ELSE IF phase = "rejected"
  THEN PrintT(<<"REJECT", inst.key, form.F, form.gsv, GSpace(inst, form.gsv)>>)
  ELSE IF (KeyHash(inst.key) + FormHash(form)) % EmitMod \in EmitRes
  THEN PrintT(<<"CASE", inst.key, form, GSpace(inst, form.gsv), res, JacVaries>>)
  ELSE TRUE
=============================================================================
