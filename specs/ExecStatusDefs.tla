--------------------------- MODULE ExecStatusDefs ---------------------------
(* Pure definitions shared by ExecStatus (one ExecutionStatus + one            *)
(* ExecutionStatistics object) and ExecStatusProc (disciplines and an MDOChain):*)
(* the status automaton of gemseo.core.execution_status, the observers, the    *)
(* statistics of gemseo.core.execution_statistics and their composition in     *)
(* BaseMonitoredProcess._execute_monitored / Discipline.linearize              *)
(*        status.handle(STATUS, statistics.record_xxx, body).                  *)
(*                                                                             *)
(* A *world* w is a record with (at least) the fields                          *)
(*   st  [process -> status]         ExecutionStatus.value                      *)
(*   att [process -> SUBSET Obs]     observers attached to the status object    *)
(*   en  BOOLEAN                     ExecutionStatistics.is_enabled (class)     *)
(*   nx, nl, du [process -> Nat]     stored counters (kept while disabled)      *)
(*   emit Seq(notification)          notifications sent since the action began  *)
(*   t   Nat                         logical clock (ticks of the harness clock) *)
(* One public call is one action; inside an action the code is sequential, so  *)
(* a call is the composition of the functions below, each returning            *)
(*   [ok |-> BOOLEAN, err |-> result 4-tuple, w |-> world].                    *)
EXTENDS Integers, Sequences, FiniteSets, TLC, Json

CONSTANT OneShot     \* observers that detach themselves when notified (ExecutionSequence observers do)

Statuses == {"RUNNING", "LINEARIZING", "FAILED", "DONE"}
Guarded  == {"RUNNING", "LINEARIZING"}
\* execution_status.py:80-117: RUNNING and LINEARIZING can only be set when the current status is DONE;
\* DONE and FAILED can be set from any status (the class docstring says "DONE only from RUNNING": not coded)
Refused(cur, new) == new \in Guarded /\ cur # "DONE"

None  == -1                           \* what a statistics getter returns while the statistics are disabled
OkRes == <<"ok", "-", "-", "-">>
R(ok, err, w) == TLCEval([ok |-> ok, err |-> err, w |-> w])   \* forced: TLC's lazy values would re-run the call
Ok(w) == R(TRUE, OkRes, w)

\* execution_statistics.py:197-250: the getters return None while disabled, the stored value otherwise
Vis(w, p) == IF w.en THEN <<w.nx[p], w.nl[p], w.du[p]>> ELSE <<None, None, None>>

\* execution_status.py:165-170: every attached observer is notified once (iteration on a copy, so an
\* observer that detaches itself does not disturb the others); the notification carries what the observer
\* can read at that moment: the process, its new status, and the counters of the process.
Notify(w, p) ==
    [w EXCEPT !.emit = Append(@, <<p, w.st[p], w.att[p], Vis(w, p)[1], Vis(w, p)[2]>>),
              !.att[p] = @ \ OneShot]

\* the setter of ExecutionStatus.value: refusal -> ValueError, nothing changes, nobody is notified;
\* otherwise the status is stored and the observers are notified - also when the value does not change.
SetTo(w, p, s) ==
    IF s \notin Statuses THEN R(FALSE, <<"Invalid", p, s, "-">>, w)
    ELSE IF Refused(w.st[p], s) THEN R(FALSE, <<"Refused", p, s, w.st[p]>>, w)
    ELSE Ok(Notify([w EXCEPT !.st[p] = s], p))

\* ExecutionStatistics.__record_call: when enabled, the counter of the kind and the duration are updated
\* AFTER the body returned; a body that raises updates nothing.  kind "none": body called without statistics.
Record(w, p, kind, Body(_)) ==
    LET r == Body(w)
    IN IF r.ok /\ r.w.en /\ kind # "none"
       THEN Ok([r.w EXCEPT !.nx[p] = IF kind = "exec" THEN @ + 1 ELSE @,
                           !.nl[p] = IF kind = "lin" THEN @ + 1 ELSE @,
                           !.du[p] = @ + (r.w.t - w.t)])
       ELSE r

\* ExecutionStatus.handle(s, statistics.record_kind, body)
Handle(w, p, s, kind, Body(_)) ==
    LET r0 == SetTo(w, p, s)
    IN IF ~r0.ok THEN r0
       ELSE LET r1 == Record(r0.w, p, kind, Body)
            IN IF r1.ok THEN Ok(SetTo(r1.w, p, "DONE").w)
               ELSE R(FALSE, r1.err, SetTo(r1.w, p, "FAILED").w)

\* bodies of the harness: they advance the logical clock and succeed or raise on demand
Tick(w, n) == [w EXCEPT !.t = @ + n]
Boom(p, what) == <<"Boom", p, what, "-">>

-----------------------------------------------------------------------------
\* well-formedness of what one action emitted for process p, from status s0 to status s1:
\* the notifications of p form a chain of accepted settings starting at s0 and ending at s1
EmitOf(emit, p) == SelectSeq(emit, LAMBDA e : e[1] = p)
ChainOK(s0, seq, s1) ==
    /\ \A i \in 1..Len(seq) : ~Refused(IF i = 1 THEN s0 ELSE seq[i - 1][2], seq[i][2])
    /\ (IF Len(seq) = 0 THEN s1 = s0 ELSE s1 = seq[Len(seq)][2])
=============================================================================
