---------------------------- MODULE OptParetoReport ----------------------------
(***************************************************************************)
(* code -> spec for the Pareto clause of C04: what the real                *)
(* compute_pareto_optimal_points and ParetoFront.from_optimization_problem *)
(* reported for every history enumerated by OptPareto, judged by the       *)
(* relation FrontAcceptable.                                               *)
(*  report = [pts, mask : <<indices kept by the filter>>, maskb,           *)
(*            front : <<[idx, o]>> (x_optima / f_optima), frontb]          *)
(* A front that could not be built is accepted only when the filter itself *)
(* kept no point (nothing to report).                                      *)
(***************************************************************************)
EXTENDS OptPareto

Reports == JsonDeserialize(IOEnv.TRACE_FILE)
VARIABLE tid
R == Reports[tid]
ToSet(s) == {s[i] : i \in 1..Len(s)}

RInit == tid \in 1..Len(Reports) /\ pts = Reports[tid].pts
RNext == UNCHANGED <<pts, tid>>

MaskAsFront == {[idx |-> i, o |-> IF i \in 1..Len(pts) THEN pts[i].o ELSE <<>>] : i \in ToSet(R.mask)}
MaskV == IF ~R.maskb THEN "Raised" ELSE FrontVerdict(pts, MaskAsFront)
FrontV == IF ~R.frontb THEN (IF R.maskb /\ R.mask = <<>> THEN "nothing_to_report" ELSE "Raised")
          ELSE FrontVerdict(pts, ToSet(R.front))
Judge == PrintT(ToJson(<<"P", tid, MaskV, FrontV>>))
JudgeIsRelation == /\ (MaskV = "ok") => FrontAcceptable(pts, MaskAsFront)
                   /\ (FrontV = "ok") => FrontAcceptable(pts, ToSet(R.front))
================================================================================
