---------------------------- MODULE OptParetoReport ----------------------------
(***************************************************************************)
(* code -> spec for the Pareto clause of C04: what the real                *)
(* compute_pareto_optimal_points and ParetoFront.from_optimization_problem *)
(* reported for every history enumerated by OptPareto, judged by the       *)
(* relation FrontAcceptable.                                               *)
(*  report = [pts, mask : <<indices kept by the filter>>, maskb,           *)
(*            front : <<[idx, o]>> (x_optima / f_optima), frontb,          *)
(*            mo : [skipped, built, has, front] (the pareto_front field of *)
(*                 MultiObjectiveOptimizationResult.from_optimization_problem)] *)
(* A front that could not be built is accepted only when the filter itself *)
(* kept no point (nothing to report); the verdict then tells whether a     *)
(* feasible point with an objective existed (all of them duplicated).      *)
(***************************************************************************)
EXTENDS OptPareto

Reports == JsonDeserialize(IOEnv.TRACE_FILE)
VARIABLE tid
R == Reports[tid]
ToSet(s) == {s[i] : i \in 1..Len(s)}

RInit == tid \in 1..Len(Reports) /\ pts = Reports[tid].pts
RNext == UNCHANGED <<pts, tid>>

MaskAsFront == {[idx |-> i, o |-> IF i \in 1..Len(pts) THEN pts[i].o ELSE <<>>] : i \in ToSet(R.mask)}
MaskV == IF ~R.maskb THEN "Raised" ELSE FrontVerdict(pts, MaskAsFront)
SomeFeasibleObjective == \E i \in 1..Len(pts) : HasObj(pts[i]) /\ pts[i].feas
NothingToReport == IF R.maskb /\ R.mask = <<>>
                   THEN (IF SomeFeasibleObjective THEN "nothing_reported_all_candidates_duplicated" ELSE "nothing_to_report")
                   ELSE "Raised"
FrontV == IF ~R.frontb THEN NothingToReport ELSE FrontVerdict(pts, ToSet(R.front))
MoV == IF R.mo.skipped THEN "not_called"
       ELSE IF ~R.mo.built THEN NothingToReport
       ELSE IF ~R.mo.has THEN "no_front"
       ELSE FrontVerdict(pts, ToSet(R.mo.front))
Judge == PrintT(ToJson(<<"P", tid, MaskV, FrontV, MoV>>))
JudgeIsRelation == /\ (MaskV = "ok") => FrontAcceptable(pts, MaskAsFront)
                   /\ (FrontV = "ok") => FrontAcceptable(pts, ToSet(R.front))
                   /\ (MoV = "ok") => FrontAcceptable(pts, ToSet(R.mo.front))
================================================================================
