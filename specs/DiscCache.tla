------------------------------ MODULE DiscCache ------------------------------
(* C05 - "Discipline caches are transparent": the property layer.                       *)
(*                                                                                      *)
(* A discipline  y = G(x)  with Jacobian J(x) is called through execute()/linearize()   *)
(* with a cache policy Kind and a tolerance Tol/Scale.  This module contains ONLY what  *)
(* the property speaks about: the caller-owned cells, the history of body runs, the     *)
(* value returned by the last call (ret) and the clauses of the property as invariants  *)
(* over (history, ret).  It is used three times:                                        *)
(*   - standalone (Spec below): the most liberal behaviour the property allows          *)
(*     (a relation: any admissible cached input may be served);                         *)
(*   - by DiscCacheImpl, which adds the storage of the caches as coded and must satisfy *)
(*     the same invariants in every reachable state;                                    *)
(*   - by DiscCacheTrace, which feeds the returns OBSERVED on the real gemseo objects    *)
(*     into Observe() and lets TLC evaluate the same invariants on the recorded trace.  *)
(*                                                                                      *)
(* Inputs.  "x" is a 1-D lattice  XV[i]/Scale  (dyadic rationals, Scale a power of 2),  *)
(* "z" has NZ values (index 0 = the default value, index 1 far away from it), "s" is a  *)
(* self-coupled variable that always takes its default.  A point is <<xi, zi>>: the     *)
(* COMPLETED input (defaults filled in) - passing the default explicitly or omitting it *)
(* is the same point.                                                                   *)
EXTENDS Naturals, Integers, FiniteSets, Sequences, TLC

CONSTANTS Kind,      \* "none" | "simple" | "memShared" | "memLocal" | "hdf5"
          Tol,       \* tolerance = Tol / Scale ; 0 = exact matching
          Scale,
          XV,        \* <<0, 2, 5, ...>> lattice of "x" (scaled naturals)
          NZ,        \* number of values of "z"
          Cells,     \* caller-owned mutable arrays holding a value of "x"
          VKinds     \* value kinds of the input "x" offered to a history (see vkind)

\* lattices selectable from a configuration file (XV <- Lattice4): a .cfg cannot hold a sequence.
\* With Scale = 8, Tol = 2 (tolerance 1/4): 0 ~ 2 ~ 5 but not 0 ~ 5 (non-transitive), 2 is near 5
\* only when 5 is the reference (asymmetric), 8 ~ 5, 8 ~ 12 but not 5 ~ 12, 16 is isolated from 0..8.
Lattice3 == <<0, 2, 16>>
Lattice4 == <<0, 2, 5, 16>>
Lattice5 == <<0, 2, 5, 8, 12>>
Lattice6 == <<0, 1, 2, 5, 8, 16>>
XI     == 1..Len(XV)
Points == XI \X (0..(NZ - 1))
Full   == Kind \in {"memShared", "memLocal", "hdf5"}
Abs(a)    == IF a < 0 THEN -a ELSE a
Max2(a, b) == IF a < b THEN b ELSE a

(* VALUE KINDS.  The abstract identity of an input is the point <<xi, zi>>; the KIND of   *)
(* the lattice variable "x" is how that identity is represented in the discipline data:   *)
(*   "float"   1-D float array  [XV[i]/Scale]          "int"  1-D integer array [XV[i]]    *)
(*   "complex" 1-D complex array (zero imaginary part) "mat"  2-D float array              *)
(*   "str"     array of one string                     "pystr" a plain Python str          *)
(*   "dict" / "list"  a container {"a": cell, "b": [1.]} / [cell, [1.]] holding 1-D float  *)
(*             arrays: the caller's cell is the INNER array                                *)
(* A history has one kind (vkind, chosen initially, never changed).  The kind only changes *)
(* the representation, except for tolerance-based matching: a tolerance is a bound on a    *)
(* norm, which non-numeric values do not have - they are "within t" iff they are equal.   *)
(* The integer kind represents XV[i] itself (unit 1 instead of 1/Scale).                   *)
AllVKinds    == {"float", "int", "complex", "mat", "str", "pystr", "dict", "list"}
Numeric(k)   == k \in {"float", "int", "complex", "mat", "dict"}
Unit(k)      == IF k = "int" THEN 1 ELSE Scale
ASSUME VKinds \subseteq AllVKinds /\ VKinds # {}

(* "within tolerance".  BaseCache documents  |x - x'| / (1 + |x'|) <= tol  with x' the  *)
(* cached array; compare_dict_of_arrays documents (and computes) the same bound with    *)
(* one of its two arguments as the reference, and the caches pass the *new* input first.*)
(* The property says "a previously seen input within t": the relation accepted here is  *)
(* the union (reference = either side), decided by exact integer comparisons:           *)
(*    |a-b|/U <= (Tol/Scale) * (1 + r/U)   <=>   Scale*|a-b| <= Tol*(U + r)             *)
(* with U the unit of the kind (values are XV[i]/U).                                     *)
VARIABLES cell,     \* cell -> lattice index: current content of the caller's array
          vkind,    \* the value kind of "x" in this history
          runs,     \* points at which the body (_run) ran, ever
          since,    \* points at which the body ran since the cache was created/cleared
          lins,     \* points at which the Jacobian body (_compute_jacobian) ran, ever
          lastRun,  \* point of the latest body run, ever (P0 before the first one)
          hasLast,  \* there was a body run since the cache was created/cleared
          bad,      \* action-level clauses broken so far ("rerun", "missedLast", "reopenDiffers", "corrupted")
          ret       \* what the last call returned / did
hvars == <<runs, since, lins, lastRun, hasLast, bad, ret, vkind>>
avars == <<cell, hvars>>

NearRef(a, b, r) == Scale * Abs(XV[a] - XV[b]) <= Tol * (Unit(vkind) + r)
Admissible(x, s) ==
    IF Tol = 0 \/ Kind = "none" \/ ~Numeric(vkind) THEN s = x
    ELSE s[2] = x[2] /\ NearRef(x[1], s[1], Max2(XV[x[1]], XV[s[1]]))

(* ret: op in {"init","exec","lin"}; x the completed input of the call; hasOut: output  *)
(* data were produced by the call (execute, or linearize with execute=True) and equal   *)
(* G(src); ran: the body ran in this call; req: requested Jacobian level (0 for exec);  *)
(* jl, jsrc: the returned Jacobian has the pairs of level jl and equals J(jsrc);        *)
(* lin: the Jacobian body ran in this call.                                             *)
(* Jacobian levels (a chain of sets of (output,input) pairs): 1 = {y}x{x},              *)
(* 2 = {y,w}x{x,z}, 3 = all outputs x all inputs; 0 = none.                             *)
P0 == <<1, 0>>
NoRet == [op |-> "init", x |-> P0, hasOut |-> FALSE, src |-> P0, ran |-> FALSE,
          req |-> 0, jl |-> 0, jsrc |-> P0, lin |-> FALSE]
RetType == [op : {"init", "exec", "lin"}, x : Points, hasOut : BOOLEAN, src : Points, ran : BOOLEAN,
            req : 0..3, jl : 0..3, jsrc : Points, lin : BOOLEAN]

HInit == /\ runs = {} /\ since = {} /\ lins = {} /\ lastRun = P0 /\ hasLast = FALSE
         /\ bad = {} /\ ret = NoRet

(* history update for a call that returned r.  relin: a PROCESS discipline re-executed its  *)
(* members at r.x while assembling its Jacobian (after its own outputs had come from the    *)
(* cache): values computed there are values of a body run at r.x, but the execution that the *)
(* cache policies bound (AtMostOnce, SimpleKeepsLast) is the one of execute()                *)
ObserveX(r, relin) ==
    /\ runs'  = IF r.ran \/ relin THEN runs \cup {r.x} ELSE runs
    /\ since' = IF r.ran THEN since \cup {r.x} ELSE since
    /\ lins'  = IF r.lin THEN lins \cup {r.x} ELSE lins
    /\ bad'   = bad \cup (IF r.ran /\ r.x \in since THEN {"rerun"} ELSE {})
                    \cup (IF r.ran /\ hasLast /\ lastRun = r.x THEN {"missedLast"} ELSE {})
    /\ lastRun' = IF r.ran THEN r.x ELSE lastRun
    /\ hasLast' = (hasLast \/ r.ran)
    /\ ret' = r
    /\ vkind' = vkind
Observe(r) == ObserveX(r, FALSE)
(* the cache was emptied (clear(), or a new in-memory cache object) *)
ObserveReset == /\ since' = {} /\ hasLast' = FALSE
                /\ UNCHANGED <<runs, lins, lastRun, bad, ret, vkind>>
(* a new HDF5Cache object was opened on the same file and node; same: its entries are those *)
(* the previous object had                                                                  *)
ObserveReopen(same) == /\ bad' = bad \cup (IF same THEN {} ELSE {"reopenDiffers"})
                       /\ UNCHANGED <<runs, since, lins, lastRun, hasLast, ret, vkind>>
(* the caller edited in place an array it had passed to an earlier call (for a container-valued *)
(* input: an array held by the container); same: what the cache shows through its interface     *)
(* (its entries) is what it showed before the edit                                              *)
ObserveMutate(same) == /\ bad' = bad \cup (IF same THEN {} ELSE {"corrupted"})
                       /\ UNCHANGED <<runs, since, lins, lastRun, hasLast, ret, vkind>>

---------------------------------------------------------------------------------
(* The clauses of the property.                                                         *)
TransparentOut ==      \* outputs are those of a previously run input within tolerance
    ret.hasOut => (ret.src \in runs /\ Admissible(ret.x, ret.src))
TransparentJac ==      \* same for the Jacobian; requested pairs are all returned
    (ret.op = "lin") => (/\ ret.jl >= ret.req /\ ret.req >= 1
                         /\ ret.jsrc \in lins /\ Admissible(ret.x, ret.jsrc))
AtMostOnce ==          \* full cache: the body runs at most once per distinct input (exact matching or
                       \* not: an input at which the body ran is a seen input within any tolerance of itself)
    Full => ("rerun" \notin bad)
SimpleKeepsLast ==     \* "last evaluation" policy: the latest evaluation is not redone
    (Kind = "simple" /\ Tol = 0) => ("missedLast" \notin bad)
ReopenSame ==          \* a cache reopened from its file serves the same entries
    "reopenDiffers" \notin bad
Uncached ==            \* no cache: every call runs the body at its own input
    (Kind = "none" /\ ret.hasOut) => (ret.ran /\ ret.src = ret.x)
CallerCannotCorrupt == \* arrays the caller passed in and later modifies never change what the cache returns
    "corrupted" \notin bad       \* (what it SERVES for the modified array is judged by Transparent*)
TypeOK == /\ ret \in RetType /\ cell \in [Cells -> XI] /\ runs \subseteq Points /\ lins \subseteq Points
          /\ vkind \in VKinds
Clauses == <<"TransparentOut", TransparentOut, "TransparentJac", TransparentJac,
             "AtMostOnce", AtMostOnce, "SimpleKeepsLast", SimpleKeepsLast, "ReopenSame", ReopenSame, "Uncached", Uncached,
             "CallerCannotCorrupt", CallerCannotCorrupt>>

---------------------------------------------------------------------------------
(* Standalone: the most liberal system satisfying the clauses (used as a sanity check   *)
(* of the clauses themselves: they are satisfiable and not vacuous).                    *)
CONSTANTS ZArgs,     \* how "z" is passed: "omit" (defaulted), "dflt" (default value given), "alt"
          MaxDepth
ZI(za) == IF za = "alt" THEN 1 ELSE 0
ReqLevels == 1..3

LegalOut(r) ==
    r.hasOut => /\ (IF r.ran THEN r.src = r.x
                    ELSE (Kind # "none" /\ r.src \in runs /\ Admissible(r.x, r.src)))
                /\ ((Full /\ r.x \in since) => ~r.ran)
                /\ ((Kind = "simple" /\ Tol = 0 /\ hasLast /\ lastRun = r.x) => ~r.ran)
LegalJac(r) ==
    (r.op = "lin") => /\ r.jl >= r.req
                      /\ (IF r.lin THEN r.jsrc = r.x
                          ELSE (r.jsrc \in lins /\ Admissible(r.x, r.jsrc)))

AExecute(c, za) ==
    \E ran \in BOOLEAN, src \in Points :
       LET x == <<cell[c], ZI(za)>>
           r == [NoRet EXCEPT !.op = "exec", !.x = x, !.hasOut = TRUE, !.src = src, !.ran = ran]
       IN /\ LegalOut(r) /\ Observe(r) /\ UNCHANGED cell
ALinearize(c, za, req, ex) ==
    \E ran \in BOOLEAN, src \in Points, lin \in BOOLEAN, jsrc \in Points, jl \in 1..3 :
       LET x == <<cell[c], ZI(za)>>
           r == [op |-> "lin", x |-> x, hasOut |-> ex, src |-> IF ex THEN src ELSE P0,
                 ran |-> ex /\ ran, req |-> req, jl |-> jl, jsrc |-> jsrc, lin |-> lin]
       IN /\ (~ex => (ret.op # "init" /\ ret.x = x /\ ~ran /\ src = P0))
          /\ LegalOut(r) /\ LegalJac(r) /\ Observe(r) /\ UNCHANGED cell
AMutate(c, v) == /\ cell[c] # v /\ cell' = [cell EXCEPT ![c] = v] /\ ObserveMutate(TRUE)
AClear == /\ Kind # "none" /\ ObserveReset /\ UNCHANGED cell

AInit == /\ cell \in [Cells -> XI] /\ vkind \in VKinds /\ HInit
ANext == \/ \E c \in Cells, za \in ZArgs : AExecute(c, za)
         \/ \E c \in Cells, za \in ZArgs, req \in ReqLevels, ex \in BOOLEAN : ALinearize(c, za, req, ex)
         \/ \E c \in Cells, v \in XI : AMutate(c, v)
         \/ AClear
Spec == AInit /\ [][ANext]_avars
Bound == TLCGet("level") <= MaxDepth
=================================================================================
