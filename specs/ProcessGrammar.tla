---------------------------- MODULE ProcessGrammar ----------------------------
(***************************************************************************)
(* G03 (specification growth) - namespaces and the grammar / data-flow     *)
(* construction of composite processes.                                    *)
(*                                                                         *)
(* gemseo: core/namespaces.py (update_namespaces),                         *)
(*   core/grammars/base_grammar.py (add_namespace, rename_element, update  *)
(*   with excluded_names, to_namespaced / from_namespaced),                *)
(*   core/discipline/io.py (prepare_input_data, update_output_data),       *)
(*   core/discipline/base_discipline.py (execute, _execute,                *)
(*   add_namespace_to_input / _output),                                    *)
(*   core/chains/chain.py (MDOChain._initialize_grammars, _execute),       *)
(*   core/chains/parallel_chain.py (MDOParallelChain), and                 *)
(*   core/dependency_graph.py (couplings = equality of names).             *)
(*                                                                         *)
(* A discipline is a record                                                *)
(*   ins, req, dflt      input grammar: names, required names, defaults    *)
(*   outs                output grammar: names (all required)              *)
(*   inTo, inFrom        to_namespaced / from_namespaced of the inputs     *)
(*   outTo, outFrom      the same for the outputs                          *)
(* A name is a string: a bare name "a" or a namespaced name "n_a" (for      *)
(* gemseo's "n:a"; the harness maps the separator).  The                   *)
(* harness leaf discipline number k computes, for each of its bare output  *)
(* names o,   o = KBase*k + OBase*idx(o) + SUM_i W[i]*x_i   over its bare  *)
(* input names i that are present in the data it is given (integers: the   *)
(* values are exact in TLC and in NumPy).                                  *)
(*                                                                         *)
(* TLC enumerates the systems as initial states: an instance is a number   *)
(* whose decimal digits give, per (discipline, name), the input status     *)
(* (absent / required / required+default / optional+default / optional)    *)
(* and whether the name is an output.  Along each behaviour                *)
(*   AddNamespaceToInput / AddNamespaceToOutput(k, f, ns)                  *)
(*         rename an element of a grammar of discipline k (rejected when f *)
(*         is absent or already namespaced: the state is unchanged)        *)
(*   BuildChain / BuildParallelChain                                       *)
(*         the composite's grammars are built from the disciplines in      *)
(*         listing order, as the code does it (a fold of grammar updates)  *)
(*   Execute(D)                                                            *)
(*         the composite is executed on the data D                         *)
(* Invariants (checked by TLC on every reachable state):                   *)
(*   TypeOK                                                                *)
(*   NsBijective        to_namespaced and from_namespaced of every         *)
(*                      discipline grammar are inverse bijections between  *)
(*                      the bare names that were given a namespace and the *)
(*                      namespaced names present in the grammar            *)
(*   ChainNsCoherent    the composite's namespace maps list, per bare      *)
(*                      name, one entry per discipline that namespaced it  *)
(*   FoldIsDeclarative  the grammar built by the fold = the declarative    *)
(*                      definition (an input is a composite input iff some *)
(*                      consumer is not preceded by a producer; it is      *)
(*                      required iff it is required by such a consumer;    *)
(*                      its default is that of the last such consumer)     *)
(*   AcceptEquiv        the composite's input grammar accepts the          *)
(*                      completed data exactly when every discipline       *)
(*                      accepts what it is given during the propagation    *)
(*   SubDefaultsUnused  inside an accepted MDOChain execution a discipline *)
(*                      never falls back on its own default value          *)
(*   RunIsDataFlow      the data returned by the fold of executions = the  *)
(*                      declarative data-flow (each consumer reads the     *)
(*                      last writer listed before it, else the input;      *)
(*                      each name ends with the value of its last writer)  *)
(*   RawTheorem         the composite returns what its members return when *)
(*                      the user executes them himself on D, provided the  *)
(*                      defaults are coherent (DefaultsCoherent); without  *)
(*                      this hypothesis it is not an invariant             *)
(*                      (RawAlwaysAgrees: TLC gives a counterexample)      *)
(*   NestAssoc          grouping consecutive members of an MDOChain in an  *)
(*                      inner MDOChain changes neither the grammar (names, *)
(*                      required names, defaults) nor any execution        *)
(*   ResOK              the result recorded by Execute is that data        *)
(* Action property:                                                        *)
(*   NsCouplingStep     namespacing an output (input) of a discipline      *)
(*                      changes its couplings exactly as the equality of   *)
(*                      the names says                                     *)
(***************************************************************************)
EXTENDS Integers, Sequences, FiniteSets, TLC, Json

CONSTANTS
  N,            \* number of disciplines
  NN,           \* number of bare names: the first NN of "a", "b", "c", "d"
  NSs,          \* set of namespaces: {} or {"n"}
  MaxNsOps,     \* bound on the number of add_namespace calls of a behaviour
  AllowRejected,\* TRUE: the rejected add_namespace calls are behaviours too
  Kinds,        \* subset of {"chain", "parallel"}
  First, Stride, Count,   \* the instances are the codes First + Stride*i, i in 0..Count-1
  WideData,     \* TRUE: the invariants on executions range over every subset of the names of the system,
                \* FALSE: over the data sets offered to the composite (DataChoices)
  DoExecute,    \* TRUE: Execute is an action (states per data set); the invariants on executions hold anyway
  Emit          \* TRUE: print one CASE record per built composite

VARIABLES code,   \* the instance
          discs,  \* discs[k]: discipline k
          ops,    \* history of the add_namespace calls
          chain,  \* the composite (kind "none" before it is built): snapshot of the grammars at build time
          res     \* the last execution
vars == <<code, discs, ops, chain, res>>

---------------------------------------------------------------------------------
(* names *)
NameSeq == SubSeq(<<"a", "b", "c", "d">>, 1, NN)
Names == {NameSeq[i] : i \in 1..NN}
Idx(b) == CHOOSE i \in 1..NN : NameSeq[i] = b
FN(ns, b) == ns \o "_" \o b        \* printed "n_a"; the harness maps it to "n:a" (TLC prints string keys bare)
FullNames == Names \cup {FN(ns, b) : ns \in NSs, b \in Names}
BareOf == [f \in FullNames |-> CHOOSE b \in Names : f = b \/ \E ns \in NSs : f = FN(ns, b)]
IsBare(f) == f \in Names
K == 1..N

(* finite maps *)
EmptyF == [x \in {} |-> 0]
Restrict(f, S) == [x \in DOMAIN f \cap S |-> f[x]]
Override(f, g) == [x \in DOMAIN f \cup DOMAIN g |-> IF x \in DOMAIN g THEN g[x] ELSE f[x]]
Move(f, n, m) == IF n \in DOMAIN f
                 THEN [x \in (DOMAIN f \ {n}) \cup {m} |-> IF x = m THEN f[n] ELSE f[x]]
                 ELSE f
MoveSet(S, n, m) == IF n \in S THEN (S \ {n}) \cup {m} ELSE S
Put(f, n, v) == [x \in DOMAIN f \cup {n} |-> IF x = n THEN v ELSE f[x]]
Max(S) == CHOOSE x \in S : \A y \in S : y <= x

(* the numeric layer of the harness leaves (printed in the HEADER record: the harness takes it from there) *)
Primes == <<2, 3, 5, 7, 11>>
W == [b \in Names |-> Primes[Idx(b)]]
KBase == 1000
OBase == 100
DefVal(k, b) == 10 * k + Idx(b)                       \* the default of discipline k for its input b
InVal == [f \in FullNames |-> (IF IsBare(f) THEN 50 ELSE 60) + Idx(BareOf[f])]   \* the value given for f in D
RECURSIVE WSum(_, _)
WSum(X, i) == IF i = 0 THEN 0
              ELSE WSum(X, i - 1) + (IF NameSeq[i] \in DOMAIN X THEN W[NameSeq[i]] * X[NameSeq[i]] ELSE 0)
Leaf(k, o, X) == KBase * k + OBase * Idx(o) + WSum(X, NN)
JunkName == "zz"        \* a leaf also returns an item of this name and one per bare input that is not an
JunkVal == 7777         \* output of it, all with this value: IO.update_output_data ignores what is not an output

---------------------------------------------------------------------------------
(* instances *)
RECURSIVE Pow10(_)
Pow10(i) == IF i = 0 THEN 1 ELSE 10 * Pow10(i - 1)
Digit(c, k, i) == (c \div Pow10((k - 1) * NN + (i - 1))) % 10
InSt(c, k, b) == Digit(c, k, Idx(b)) % 5      \* 0 absent 1 required 2 required+default 3 optional+default 4 optional
IsOut(c, k, b) == Digit(c, k, Idx(b)) \div 5 = 1
Disc0(c, k) ==
  [ins    |-> {b \in Names : InSt(c, k, b) # 0},
   req    |-> {b \in Names : InSt(c, k, b) \in {1, 2}},
   dflt   |-> [b \in {b \in Names : InSt(c, k, b) \in {2, 3}} |-> DefVal(k, b)],
   outs   |-> {b \in Names : IsOut(c, k, b)},
   inTo   |-> EmptyF, inFrom |-> EmptyF, outTo |-> EmptyF, outFrom |-> EmptyF]
Codes == {First + Stride * i : i \in 0..(Count - 1)}

---------------------------------------------------------------------------------
(* one grammar: add_namespace = rename_element + the two maps (BaseGrammar.add_namespace) *)
NsInput(d, b, f) ==
  [d EXCEPT !.ins = MoveSet(@, b, f), !.req = MoveSet(@, b, f), !.dflt = Move(@, b, f),
            !.inTo = Put(@, b, f), !.inFrom = Put(@, f, b)]
NsOutput(d, b, f) ==
  [d EXCEPT !.outs = MoveSet(@, b, f), !.outTo = Put(@, b, f), !.outFrom = Put(@, f, b)]

(* the couplings, as DependencyGraph defines them: equality of the names *)
Coupling(ds, j, k) == ds[j].outs \cap ds[k].ins
FlowOf(ds) == {t \in {<<j, k, Coupling(ds, j, k)>> : j, k \in K} : t[1] # t[2] /\ t[3] # {}}

---------------------------------------------------------------------------------
(* execution of one discipline (BaseDiscipline.execute with IO.prepare_input_data, _execute,
   IO.update_output_data) *)
Prepare(g, data) ==        \* the grammar's names found in the data, else their default
  [f \in {m \in g.ins : m \in DOMAIN data \/ m \in DOMAIN g.dflt} |->
      IF f \in DOMAIN data THEN data[f] ELSE g.dflt[f]]
Accepts(g, P) == g.req \subseteq DOMAIN P
Strip(P) ==                \* IO.get_input_data(with_namespaces=False)
  [b \in {BareOf[f] : f \in DOMAIN P} |-> P[CHOOSE f \in DOMAIN P : BareOf[f] = b]]
RunDisc(k, d, data) ==
  LET P == Prepare(d, data) IN
  IF ~Accepts(d, P) THEN [ok |-> FALSE, data |-> EmptyF, inp |-> P]
  ELSE LET X    == IF DOMAIN d.inTo = {} THEN P ELSE Strip(P)           \* what _run receives
           bin  == {BareOf[f] : f \in d.ins}                            \* the leaf reads its own bare inputs
           bout == {BareOf[f] : f \in d.outs}
           raw  == [o \in bout \cup (bin \ bout) \cup {JunkName} |->                  \* what _run returns: its
                      IF o \in bout THEN Leaf(k, o, Restrict(X, bin)) ELSE JunkVal]   \* outputs and foreign items
           kept == {o \in DOMAIN raw : o \in d.outs \/ o \in DOMAIN d.outTo}          \* update_output_data:
           Tgt(o) == IF o \in d.outs THEN o ELSE d.outTo[o]                           \* the others are ignored
           out  == [f \in {Tgt(o) : o \in kept} |-> raw[CHOOSE o \in kept : Tgt(o) = f]]
       IN [ok |-> TRUE, data |-> Override(P, out), inp |-> P]

---------------------------------------------------------------------------------
(* the composite's grammars, as the code builds them:
     for discipline in disciplines:
         input_grammar.update(discipline.input_grammar, excluded_names=output_grammar)   # MDOChain only
         output_grammar.update(discipline.output_grammar)
   BaseGrammar.update: names not excluded are added; the namespace maps are merged by
   update_namespaces (for every name, excluded or not: one entry per contributing grammar); the
   defaults of the names not excluded overwrite; the required names not excluded are added. *)
EmptyC == [ins |-> {}, req |-> {}, dflt |-> EmptyF, outs |-> {},
           inTo |-> EmptyF, inFrom |-> EmptyF, outTo |-> EmptyF, outFrom |-> EmptyF]
SeqOf(m, x) == IF x \in DOMAIN m THEN m[x] ELSE <<>>
MergeNs(m, m2) == [x \in DOMAIN m \cup DOMAIN m2 |-> SeqOf(m, x) \o SeqOf(m2, x)]    \* update_namespaces
Listed(m) == [x \in DOMAIN m |-> <<m[x]>>]
View(d) ==         \* a leaf seen as a member of a composite: its namespace maps hold one entry per name;
                   \* a composite is already of this shape (it can be a member of another composite)
  [ins |-> d.ins, req |-> d.req, dflt |-> d.dflt, outs |-> d.outs,
   inTo |-> Listed(d.inTo), inFrom |-> Listed(d.inFrom), outTo |-> Listed(d.outTo), outFrom |-> Listed(d.outFrom)]
UpdateIn(g, d, excl) ==
  IF d.ins = {} THEN g                                  \* "if not grammar: return"
  ELSE [g EXCEPT !.ins = @ \cup (d.ins \ excl),
                 !.dflt = Override(@, Restrict(d.dflt, DOMAIN d.dflt \ excl)),
                 !.req = @ \cup ((d.ins \ excl) \cap (d.req \ excl)),
                 !.inTo = MergeNs(@, d.inTo), !.inFrom = MergeNs(@, d.inFrom)]
UpdateOut(g, d) ==
  IF d.outs = {} THEN g
  ELSE [g EXCEPT !.outs = @ \cup d.outs, !.outTo = MergeNs(@, d.outTo), !.outFrom = MergeNs(@, d.outFrom)]
RECURSIVE FoldG(_, _, _, _)
FoldG(vs, kind, k, g) ==            \* vs: sequence of members (views)
  IF k > Len(vs) THEN g
  ELSE FoldG(vs, kind, k + 1,
             UpdateOut(UpdateIn(g, vs[k], IF kind = "chain" THEN g.outs ELSE {}), vs[k]))
BuildV(vs, kind) == FoldG(vs, kind, 1, EmptyC)
Views(ds, lo, hi) == [i \in 1..(hi - lo + 1) |-> View(ds[lo + i - 1])]
BuildG(ds, kind) == BuildV(Views(ds, 1, N), kind)

(* the same grammars, declaratively *)
Before(ds, kind, k) == IF kind = "chain" THEN UNION {ds[j].outs : j \in 1..(k - 1)} ELSE {}
DeclIns(ds, kind)  == UNION {ds[k].ins \ Before(ds, kind, k) : k \in K}
DeclReq(ds, kind)  == UNION {ds[k].req \ Before(ds, kind, k) : k \in K}
DfltOwners(ds, kind, f) == {k \in K : f \in DOMAIN ds[k].dflt /\ f \notin Before(ds, kind, k)}
DeclDflt(ds, kind) == [f \in {f \in FullNames : DfltOwners(ds, kind, f) # {}} |->
                          ds[Max(DfltOwners(ds, kind, f))].dflt[f]]
DeclOuts(ds)       == UNION {ds[k].outs : k \in K}

---------------------------------------------------------------------------------
(* execution of the composite *)
Fail(k) == [ok |-> FALSE, at |-> k, data |-> EmptyF, steps |-> <<>>]
RECURSIVE ChainRunR(_, _, _, _, _)
ChainRunR(ds, k, hi, data, steps) ==     \* MDOChain._execute: io.data.update(discipline.execute(io.data))
  IF k > hi THEN [ok |-> TRUE, at |-> 0, data |-> data, steps |-> steps]
  ELSE LET r == RunDisc(k, ds[k], data) IN
       IF ~r.ok THEN Fail(k) ELSE ChainRunR(ds, k + 1, hi, Override(data, r.data), Append(steps, r.data))
ChainRun(ds, k, data, steps) == ChainRunR(ds, k, N, data, steps)
RECURSIVE ParCollect(_, _, _, _)
ParCollect(ds, P, k, data) ==       \* MDOParallelChain._execute: the outputs, in listing order
  IF k > N THEN data
  ELSE ParCollect(ds, P, k + 1, Override(data, Restrict(RunDisc(k, ds[k], P).data, ds[k].outs)))
ParRun(ds, P) ==
  LET bad == {k \in K : ~RunDisc(k, ds[k], P).ok} IN
  IF bad # {} THEN Fail(CHOOSE k \in bad : \A j \in bad : k <= j)
  ELSE [ok |-> TRUE, at |-> 0, data |-> ParCollect(ds, P, 1, P),
        steps |-> [k \in K |-> RunDisc(k, ds[k], P).data]]
SubRun(ds, kind, P) == IF kind = "chain" THEN ChainRun(ds, 1, P, <<>>) ELSE ParRun(ds, P)
Exec(ds, c, D) ==                   \* composite.execute(D); at = 0 and not ok: rejected by the composite's grammar
  LET P == Prepare(c.g, D) IN
  IF ~Accepts(c.g, P) THEN Fail(0) ELSE SubRun(ds, c.kind, P)

(* the user executes the members himself on D, without the composite: one after the other on the
   propagated data (chain), or each of them on D (parallel); no completion by the composite's defaults *)
RawRun(ds, kind, D) == IF kind = "chain" THEN ChainRunR(ds, 1, N, D, <<>>) ELSE ParRun(ds, D)
OutsOf(ds, r) == Restrict(r.data, UNION {ds[k].outs : k \in K})
RawView(ds, kind, D) == LET q == RawRun(ds, kind, D) IN [ok |-> q.ok, outs |-> IF q.ok THEN OutsOf(ds, q) ELSE EmptyF]
RawAgree(ds, c, D) ==
  LET r == Exec(ds, c, D)
      q == RawView(ds, c.kind, D) IN
  r.ok = q.ok /\ (r.ok => OutsOf(ds, r) = q.outs)

(* an MDOChain whose members lo..hi are grouped in an inner MDOChain:
     MDOChain([d_1, .., d_(lo-1), MDOChain([d_lo, .., d_hi]), d_(hi+1), .., d_N])                     *)
InnerG(ds, lo, hi) == BuildV(Views(ds, lo, hi), "chain")
NestedG(ds, lo, hi) == BuildV(Views(ds, 1, lo - 1) \o <<InnerG(ds, lo, hi)>> \o Views(ds, hi + 1, N), "chain")
NestedExecG(ds, lo, hi, og, ig, D) ==       \* og, ig: the grammars of the outer and of the inner chain
  LET P0 == Prepare(og, D) IN
  IF ~Accepts(og, P0) THEN Fail(0)
  ELSE LET r1 == ChainRunR(ds, 1, lo - 1, P0, <<>>) IN
       IF ~r1.ok THEN r1
       ELSE LET Pi == Prepare(ig, r1.data)                       \* the inner chain is executed as a discipline
            IN IF ~Accepts(ig, Pi) THEN Fail(lo)
               ELSE LET r2 == ChainRunR(ds, lo, hi, Pi, r1.steps) IN
                    IF ~r2.ok THEN r2
                    ELSE ChainRunR(ds, hi + 1, N, Override(r1.data, r2.data), r2.steps)
NestedSame(ds, c, lo, hi, og, ig, Ds) == \A D \in Ds : NestedExecG(ds, lo, hi, og, ig, D) = Exec(ds, c, D)
Nestings == {<<lo, hi>> \in K \X K : lo < hi}

(* the same data, declaratively: who reads what *)
Writers(ds, kind, k, f) == IF kind = "chain" THEN {j \in 1..(k - 1) : f \in ds[j].outs} ELSE {}
RECURSIVE DOut(_, _, _, _)
DSeen(ds, kind, P, k) ==            \* what discipline k finds under the names of its inputs
  LET src(f) == Writers(ds, kind, k, f) IN
  [f \in {f \in ds[k].ins : src(f) # {} \/ f \in DOMAIN P} |->
      IF src(f) # {} THEN DOut(ds, kind, P, Max(src(f)))[f] ELSE P[f]]
DOut(ds, kind, P, k) ==             \* the outputs of discipline k
  LET d == ds[k]
      S == DSeen(ds, kind, P, k)
      X == [b \in {BareOf[f] : f \in DOMAIN S} |-> S[CHOOSE f \in DOMAIN S : BareOf[f] = b]]
  IN [f \in d.outs |-> Leaf(k, BareOf[f], X)]
DData(ds, kind, P) ==               \* every name ends with the value of its last writer
  LET all == DeclOuts(ds)
      lw(f) == Max({k \in K : f \in ds[k].outs})
  IN [f \in DOMAIN P \cup all |-> IF f \in all THEN DOut(ds, kind, P, lw(f))[f] ELSE P[f]]

(* the data sets offered to the composite: subsets of its inputs, plus one foreign item *)
Universe(ds) == UNION {ds[k].ins \cup ds[k].outs : k \in K}
DataChoices(ds, c) ==
  LET A == SUBSET c.g.ins IN
  {[f \in S |-> InVal[f]] : S \in A \cup {c.g.ins \cup {x} : x \in Universe(ds) \ c.g.ins}}

---------------------------------------------------------------------------------
NoChain == [kind |-> "none", g |-> EmptyC]
NoRes == [has |-> FALSE, D |-> EmptyF, r |-> Fail(0)]

Init == /\ code \in Codes
        /\ discs = [k \in K |-> Disc0(code, k)]
        /\ ops = <<>>
        /\ chain = NoChain
        /\ res = NoRes

CanNs == chain.kind = "none" /\ Len(ops) < MaxNsOps

AddNamespaceToInput(k, f, ns) ==
  /\ CanNs
  /\ LET d == discs[k]
         good == f \in d.ins /\ IsBare(f) IN
     /\ (good \/ AllowRejected)
     /\ discs' = (IF good THEN [discs EXCEPT ![k] = NsInput(d, f, FN(ns, f))] ELSE discs)
     /\ ops' = Append(ops, [side |-> "in", k |-> k, name |-> f, ns |-> ns, ok |-> good,
                            exc |-> IF good THEN "" ELSE IF f \in d.ins THEN "ValueError" ELSE "KeyError"])
  /\ UNCHANGED <<code, chain, res>>

AddNamespaceToOutput(k, f, ns) ==
  /\ CanNs
  /\ LET d == discs[k]
         good == f \in d.outs /\ IsBare(f) IN
     /\ (good \/ AllowRejected)
     /\ discs' = (IF good THEN [discs EXCEPT ![k] = NsOutput(d, f, FN(ns, f))] ELSE discs)
     /\ ops' = Append(ops, [side |-> "out", k |-> k, name |-> f, ns |-> ns, ok |-> good,
                            exc |-> IF good THEN "" ELSE IF f \in d.outs THEN "ValueError" ELSE "KeyError"])
  /\ UNCHANGED <<code, chain, res>>

Accessors(ds, r) ==      \* get_input_data / get_output_data(with_namespaces=False) of every leaf after the execution
  IF ~r.ok THEN <<>>
  ELSE [k \in K |-> [inb  |-> Strip(Restrict(r.steps[k], ds[k].ins)),
                     outb |-> Strip(Restrict(r.steps[k], ds[k].outs))]]
Execs(ds, c) == {LET r == Exec(ds, c, D) IN
                 [D |-> D, r |-> r, acc |-> Accessors(ds, r), raw |-> RawView(ds, c.kind, D),
                  rawsame |-> RawAgree(ds, c, D)] : D \in DataChoices(ds, c)}

Build(kind) ==
  /\ chain.kind = "none"
  /\ kind \in Kinds
  /\ chain' = [kind |-> kind, g |-> BuildG(discs, kind)]
  /\ (Emit => PrintT(ToJson([tag |-> "CASE", code |-> code, n |-> N, init |-> [k \in K |-> Disc0(code, k)],
                              ops |-> ops, kind |-> kind, discs |-> discs, g |-> chain'.g,
                              flow |-> FlowOf(discs), execs |-> Execs(discs, chain'),
                              nest |-> IF kind = "chain"
                                       THEN {LET og == NestedG(discs, nst[1], nst[2])
                                                 ig == InnerG(discs, nst[1], nst[2]) IN
                                             [lo |-> nst[1], hi |-> nst[2], g |-> og, inner |-> ig,
                                              same |-> NestedSame(discs, chain', nst[1], nst[2], og, ig,
                                                                  DataChoices(discs, chain'))]
                                             : nst \in Nestings}
                                       ELSE {}])))
  /\ UNCHANGED <<code, discs, ops, res>>
BuildChain == Build("chain")
BuildParallelChain == Build("parallel")

Execute(D) ==
  /\ DoExecute
  /\ chain.kind # "none"
  /\ ~res.has
  /\ res' = [has |-> TRUE, D |-> D, r |-> Exec(discs, chain, D)]
  /\ UNCHANGED <<code, discs, ops, chain>>

ExecuteAny == \E D \in DataChoices(discs, chain) : Execute(D)

Next == \/ \E k \in K, f \in FullNames, ns \in NSs : AddNamespaceToInput(k, f, ns) \/ AddNamespaceToOutput(k, f, ns)
        \/ BuildChain
        \/ BuildParallelChain
        \/ ExecuteAny

Spec == Init /\ [][Next]_vars

---------------------------------------------------------------------------------
(* invariants *)
IsMap(m, S, T) == DOMAIN m \subseteq S /\ \A x \in DOMAIN m : m[x] \in T
TypeOK ==
  /\ \A k \in K :
       LET d == discs[k] IN
       /\ d.ins \subseteq FullNames /\ d.outs \subseteq FullNames
       /\ d.req \subseteq d.ins /\ DOMAIN d.dflt \subseteq d.ins
       /\ IsMap(d.inTo, Names, FullNames) /\ IsMap(d.inFrom, FullNames, Names)
       /\ IsMap(d.outTo, Names, FullNames) /\ IsMap(d.outFrom, FullNames, Names)
       /\ \A f, h \in d.ins : BareOf[f] = BareOf[h] => f = h      \* Strip is a function
       /\ \A f, h \in d.outs : BareOf[f] = BareOf[h] => f = h
  /\ chain.kind \in {"none"} \cup Kinds
  /\ chain.g.req \subseteq chain.g.ins /\ DOMAIN chain.g.dflt \subseteq chain.g.ins
  /\ Len(ops) <= MaxNsOps

Inverse(to, from, names) ==
  /\ DOMAIN from = {f \in names : ~IsBare(f)}            \* exactly the namespaced names of the grammar
  /\ DOMAIN to = {from[f] : f \in DOMAIN from}
  /\ \A b \in DOMAIN to : to[b] \in DOMAIN from /\ from[to[b]] = b
  /\ \A f \in DOMAIN from : to[from[f]] = f
  /\ \A f \in DOMAIN from : from[f] = BareOf[f]
NsBijective == \A k \in K : /\ Inverse(discs[k].inTo, discs[k].inFrom, discs[k].ins)
                            /\ Inverse(discs[k].outTo, discs[k].outFrom, discs[k].outs)

ChainNsCoherent ==
  chain.kind # "none" =>
    /\ \A b \in Names : /\ Len(SeqOf(chain.g.inTo, b)) = Cardinality({k \in K : b \in DOMAIN discs[k].inTo})
                        /\ Len(SeqOf(chain.g.outTo, b)) = Cardinality({k \in K : b \in DOMAIN discs[k].outTo})
    /\ \A f \in FullNames :
         /\ Len(SeqOf(chain.g.inFrom, f)) = Cardinality({k \in K : f \in DOMAIN discs[k].inFrom})
         /\ Len(SeqOf(chain.g.outFrom, f)) = Cardinality({k \in K : f \in DOMAIN discs[k].outFrom})
         /\ \A i \in 1..Len(SeqOf(chain.g.inFrom, f)) : chain.g.inFrom[f][i] = BareOf[f]
         /\ \A i \in 1..Len(SeqOf(chain.g.outFrom, f)) : chain.g.outFrom[f][i] = BareOf[f]
    /\ \A f \in chain.g.ins \cup chain.g.outs : ~IsBare(f) =>     \* a namespaced name of the composite maps back
         (f \in DOMAIN chain.g.inFrom \/ f \in DOMAIN chain.g.outFrom)

FoldIsDeclarative ==
  chain.kind # "none" =>
    /\ chain.g.ins  = DeclIns(discs, chain.kind)
    /\ chain.g.req  = DeclReq(discs, chain.kind)
    /\ chain.g.dflt = DeclDflt(discs, chain.kind)
    /\ chain.g.outs = DeclOuts(discs)

Built == chain.kind # "none" /\ ~res.has      \* the quantified invariants are evaluated once per composite
Completed(D) == Prepare(chain.g, D)
AllData == IF WideData THEN {[f \in S |-> InVal[f]] : S \in SUBSET Universe(discs)}
           ELSE DataChoices(discs, chain)

AcceptEquiv ==
  Built => \A D \in AllData :
             Accepts(chain.g, Completed(D)) <=> SubRun(discs, chain.kind, Completed(D)).ok

RECURSIVE NoFallback(_, _, _)
NoFallback(ds, k, data) ==
  IF k > N THEN TRUE
  ELSE LET r == RunDisc(k, ds[k], data) IN
       (~r.ok) \/ (DOMAIN r.inp \subseteq DOMAIN data /\ NoFallback(ds, k + 1, Override(data, r.data)))
SubDefaultsUnused ==
  Built => \A D \in AllData :
             Accepts(chain.g, Completed(D)) =>
               IF chain.kind = "chain" THEN NoFallback(discs, 1, Completed(D))
               ELSE \A k \in K : DOMAIN RunDisc(k, discs[k], Completed(D)).inp \subseteq DOMAIN Completed(D)

RunIsDataFlow ==
  Built => \A D \in AllData :
             LET r == Exec(discs, chain, D) IN
             r.ok => /\ r.data = DData(discs, chain.kind, Completed(D))
                     /\ \A k \in K : /\ Restrict(r.steps[k], discs[k].outs) = DOut(discs, chain.kind, Completed(D), k)
                                     /\ Restrict(r.steps[k], discs[k].ins \ discs[k].outs)
                                          = Restrict(DSeen(discs, chain.kind, Completed(D), k), discs[k].ins \ discs[k].outs)

(* The composite completes D with ITS defaults (for a name: the default of the last member that declares
   one) before any member runs.  It therefore returns what the members return when executed by hand on D
   if, for every name with a default, the member that would supply it by hand supplies the same value:
   the first consumer in an MDOChain (what it returns is propagated), every consumer in a parallel chain. *)
Consumers(ds, kind, f) == {k \in K : f \in ds[k].ins \ Before(ds, kind, k)}
DefaultsCoherent(ds, kind, g) ==
  \A f \in DOMAIN g.dflt :
    \A k \in Consumers(ds, kind, f) :
      (kind = "parallel" \/ \A j \in Consumers(ds, kind, f) : k <= j) =>
        (f \in DOMAIN ds[k].dflt /\ ds[k].dflt[f] = g.dflt[f])
RawTheorem ==
  (Built /\ DefaultsCoherent(discs, chain.kind, chain.g)) => \A D \in AllData : RawAgree(discs, chain, D)
(* NOT an invariant (TLC shows a counterexample: two members with different defaults for a shared input):
   "executing the composite = executing its members by hand" without the hypothesis on the defaults *)
RawAlwaysAgrees == Built => \A D \in AllData : RawAgree(discs, chain, D)

Core(g) == [ins |-> g.ins, req |-> g.req, dflt |-> g.dflt, outs |-> g.outs]
NestAssoc ==        \* grouping consecutive members of an MDOChain in an inner MDOChain changes nothing
  (Built /\ chain.kind = "chain") =>
    \A nst \in Nestings :
      LET og == NestedG(discs, nst[1], nst[2])
          ig == InnerG(discs, nst[1], nst[2]) IN
      /\ Core(og) = Core(chain.g)
      /\ NestedSame(discs, chain, nst[1], nst[2], og, ig, AllData)

ResOK == res.has => /\ res.r = Exec(discs, chain, res.D)
                    /\ (res.r.ok => res.r.data = DData(discs, chain.kind, Completed(res.D)))

(* namespacing and couplings: exactly what the equality of names says *)
NsCouplingStep ==
  [][(Len(ops') = Len(ops) + 1) =>
       LET op == ops'[Len(ops')]
           nf == FN(op.ns, op.name) IN
       IF ~op.ok THEN discs' = discs
       ELSE \A j, k \in K :
              IF op.side = "out" /\ j = op.k
              THEN Coupling(discs', j, k) = (Coupling(discs, j, k) \ {op.name}) \cup ({nf} \cap discs[k].ins)
              ELSE IF op.side = "in" /\ k = op.k
              THEN Coupling(discs', j, k) = (Coupling(discs, j, k) \ {op.name}) \cup ({nf} \cap discs[j].outs)
              ELSE Coupling(discs', j, k) = Coupling(discs, j, k)]_vars

(* printed once: the numeric layer of the leaves, taken by the harness from here *)
Header == [tag |-> "HEADER", junk |-> [name |-> JunkName, val |-> JunkVal], w |-> W, kbase |-> KBase, obase |-> OBase, inval |-> InVal, names |-> NameSeq]
ASSUME Emit => PrintT(ToJson(Header))
=================================================================================
