------------------------------- MODULE MDATrace -------------------------------
(***************************************************************************)
(* code -> spec for C06: executions of the real MDAJacobi / MDAGaussSeidel *)
(* / MDAChain with either as inner MDA / MDASequential of two of them (no  *)
(* acceleration, over-relaxation factor w/2) on harness linear disciplines *)
(* that log what they receive and return at every execution.               *)
(* A trace is                                                              *)
(*   [id, inst, cfg, events]                                               *)
(*   events: [ev |-> "exec", d, inp, out]   one discipline execution: the  *)
(*                 coupling components it read (ascending) and its output, *)
(*                 as canonical dyadic pairs <<m, e>> (exact doubles);     *)
(*           [ev |-> "end", run, log, y]    execute() returned: per (inner)*)
(*                 MDA, in execution order, <<length of the residual       *)
(*                 history of this execution, normed residual <=           *)
(*                 tolerance>>; the returned coupling values.              *)
(* Each logged step must be the step of MDA.tla with EQUAL values; the     *)
(* steps of the loop that log nothing (end of a sweep, the stop test, the  *)
(* relaxation, the start of a second execution) are taken silently and are *)
(* deterministic but for a stop test that falls on an exact equality.      *)
(* Every invariant of MDA (NilExact, APriori, APost, Budget, ...) is       *)
(* evaluated by TLC in every state of every trace.                         *)
(* A trace also names the FLAVOUR of the harness disciplines, which is not *)
(* part of the system and therefore changes nothing here:                  *)
(*   dtype  "float" | "int": the couplings are declared (grammars) and     *)
(*          exchanged as arrays of integers - admitted only on an integral *)
(*          orbit (IntegralOrbit; the invariant Integral is checked);      *)
(*   reuse  a discipline returns the same output array object each time.   *)
(* Witness per trace (register Len(Traces) + tid): 1 when a stop test ran  *)
(* against a first residual that vanishes on some resolved variable only   *)
(* (StalledRef), 2 when it did in a SECOND execution of the object.        *)
(***************************************************************************)
EXTENDS MDA, Json, IOUtils, TLCExt

Traces == JsonDeserialize(IOEnv.TRACE_FILE)
VARIABLES tid, l,
          ended      \* number of executions whose "end" event was matched
tvars == <<vars, tid, l, ended>>
T == Traces[tid]
Ev == T.events[l]

TInit == /\ tid \in 1..Len(Traces)
         /\ l = 1
         /\ ended = 0
         \* "= TRUE": evaluated as a value (TLC would otherwise branch on every disjunct inside)
         /\ (ValidInst(T.inst) /\ ValidCfg(T.inst, T.cfg)) = TRUE
         /\ (T.dtype \in {"float", "int"} /\ T.reuse \in BOOLEAN) = TRUE
         /\ (T.dtype = "int" => IntegralOrbit(T.inst, T.cfg)) = TRUE
         /\ Start(T.inst, T.cfg, ExAux(T.inst))

IsEv(e) == l <= Len(T.events) /\ Ev.ev = e /\ l' = l + 1 /\ UNCHANGED tid
Silent == UNCHANGED <<tid, l>>

Proj(v, idx) == [j \in 1..Len(idx) |-> v[idx[j]]]

TExec == /\ IsEv("exec")
         /\ UNCHANGED ended
         /\ Exec
         /\ LET d   == St.ds[pos + 1]
                src == IF St.inner = "J" THEN bef ELSE y
            IN  /\ Ev.d = d
                /\ Ev.inp = Proj(src, ReadSeq(inst, d))
                /\ Ev.out = Proj(y', CompSeq(inst, d))

\* the discipline of a chain stage that needs no MDA
TSingle == /\ IsEv("exec")
           /\ UNCHANGED ended
           /\ Single
           /\ LET d == St.ds[1]
              IN  /\ Ev.d = d
                  /\ Ev.inp = Proj(y, ReadSeq(inst, d))
                  /\ Ev.out = Proj(y', CompSeq(inst, d))

TEnd == /\ IsEv("end")
        /\ pc = "done"
        /\ ended = run - 1
        /\ Ev.run = run
        /\ Ev.log = log
        /\ Ev.y = y
        /\ ended' = run
        /\ UNCHANGED vars

TSilent == Silent /\ (EndPre \/ EndSweep \/ Stop \/ Continue \/ (ended = run /\ NewRun)) /\ UNCHANGED ended

TNext == TExec \/ TSingle \/ TEnd \/ TSilent

\* acceptance: furthest event index reached per trace (registers; -workers 1)
WReg == Len(Traces) + tid
Furthest == /\ TLCSet(tid, IF TLCGet(tid) < l THEN l ELSE TLCGet(tid))
            /\ (IF StalledRef THEN TLCSet(WReg, MaxI(TLCGet(WReg), run)) ELSE TRUE)
RegInit == \A i \in 1..(2 * Len(Traces)) : TLCSet(i, 0)
ASSUME RegInit
Accepted == \A i \in 1..Len(Traces) :
   PrintT(<<"TRACE", Traces[i].id, TLCGet(i) - 1, Len(Traces[i].events), TLCGet(Len(Traces) + i)>>)
=============================================================================
