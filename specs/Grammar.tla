------------------------------- MODULE Grammar -------------------------------
(* C15 - gemseo grammars (core/grammars/base_grammar.py, json_grammar.py,       *)
(* simple_grammar.py, pydantic_grammar.py, required_names.py, defaults.py).     *)
(*                                                                              *)
(* A grammar is a finite map  name -> type  (its elements), a subset of         *)
(* required names, a partial map of defaults and two namespace maps.  Every     *)
(* public edit operation is one action; read-only queries are actions that      *)
(* leave the grammar unchanged.  A type is a non-empty set of atoms (a merged   *)
(* element allows any of its atoms).  What a value "is" is abstracted to a kind *)
(* (python int, float, ndarray of floats, list of ints, ...); the harness owns  *)
(* one concrete representative per kind and nothing else.                       *)
(*                                                                              *)
(* HasType is per grammar class (DESIGN C15):                                   *)
(*   json     : JSON-schema typing after gemseo's documented cast (ndarray,     *)
(*              list, tuple -> array; complex -> its real part; bool is not an  *)
(*              integer; an integer is a number)                                *)
(*   simple   : python isinstance against the declared type                     *)
(*   pydantic : strict pydantic validation of the annotation                    *)
(* NSlots = 2 adds a second grammar object created by Copy; the two objects are *)
(* independent values here (that is the meaning of "copy").                     *)
EXTENDS Naturals, FiniteSets, Sequences, TLC

CONSTANTS Class,      \* "json" | "simple" | "pydantic" (the operations whose meaning pydantic grammars share)
          Names,      \* base element names (without namespace prefix)
          TAtoms,     \* atoms offered to UpdateFromTypes
          DKinds,     \* value kinds offered to UpdateFromData
          Ops,        \* names of the enabled actions
          NSlots,     \* 1, or 2 when Copy is enabled
          MaxElems,   \* bound on the number of elements of a grammar
          MaxAtoms,   \* bound on the number of atoms of a merged type
          MaxDepth,   \* bound on the length of the histories
          ReqOps      \* operations of the live required-names set offered to EditRequired

VARIABLES g,          \* g[s] : the grammar object in slot s
          q,          \* q[s] : which lazily built views of g[s] were requested since its definition was
                      \*        last edited (val: validated, sch: schema asked) and whether an update of some
                      \*        grammar object failed since then (fail).  Path-forming only: it makes "fill a
                      \*        cache, edit, query again" and "an update fails, the next edit" distinct
                      \*        transitions of the state graph.  It never enters an expected value.
          h           \* number of edit operations so far (queries are not counted)
vars == <<g, q, h>>

Slots == 1..NSlots
Ns(n) == "n_" \o n                     \* the harness maps "n_x" to "n:x"
AllNames == Names \cup {Ns(n) : n \in Names}
DefaultValues == {1, 2}

--------------------------------------------------------------------------------
(* functions as finite maps *)
Restrict(f, S) == [x \in DOMAIN f \cap S |-> f[x]]
Without(f, S)  == [x \in DOMAIN f \ S |-> f[x]]
Override(f, f2) == [x \in DOMAIN f \cup DOMAIN f2 |-> IF x \in DOMAIN f2 THEN f2[x] ELSE f[x]]
Move(f, n, m)  == IF n \in DOMAIN f
                  THEN [x \in (DOMAIN f \ {n}) \cup {m} |-> IF x = m THEN f[n] ELSE f[x]]
                  ELSE f
MoveSet(S, n, m) == IF n \in S THEN (S \ {n}) \cup {m} ELSE S

--------------------------------------------------------------------------------
(* typing *)
Kinds == {"int", "float", "bool", "str", "cplx", "farr", "iarr", "ilist", "flist", "slist",
          "tuple", "arr2d", "empty", "dict", "none"}
   \* int 3 | float 1.5 | bool True | str "s" | complex 1.5+2j | ndarray [1.5,2.5] | ndarray [1,2] |
   \* list [1,2] | list [1.5] | list ["s"] | tuple (1,2) | ndarray [[1.5,2.5]] | ndarray [] |
   \* dict {"k":1} | None      (non-integral floats only: integral floats are draft-dependent)
ArrayLike == {"farr", "iarr", "ilist", "flist", "slist", "tuple", "arr2d", "empty"}
NDArrays  == {"farr", "iarr", "arr2d", "empty"}
Atoms == {"Int", "Num", "Bool", "Str", "Arr", "ArrNum", "ArrInt", "Any", "Obj"}
   \* Obj: a nested object {"type": "object", "properties": {"x": {"type": "integer"}}} (JSON schemas only)

JsonAcc(a) ==
  CASE a = "Int"    -> {"int"}
    [] a = "Num"    -> {"int", "float", "cplx"}
    [] a = "Bool"   -> {"bool"}
    [] a = "Str"    -> {"str"}
    [] a = "Arr"    -> ArrayLike                                             \* {"type": "array"}
    [] a = "ArrNum" -> {"farr", "iarr", "ilist", "flist", "tuple", "empty"}  \* items: number
    [] a = "ArrInt" -> {"iarr", "ilist", "tuple", "empty"}                   \* items: integer
    [] a = "Any"    -> Kinds                                                 \* {}
    [] a = "Obj"    -> {"dict"}                                              \* nested object

SimpleAcc(a) ==
  CASE a = "Int"    -> {"int", "bool"}        \* isinstance(True, int)
    [] a = "Num"    -> {"float"}              \* python float: 1 is not a float
    [] a = "Bool"   -> {"bool"}
    [] a = "Str"    -> {"str"}
    [] a = "Arr"    -> NDArrays               \* numpy.ndarray: a list is not an ndarray
    [] a = "Any"    -> Kinds                  \* None
    [] OTHER        -> {}

PydanticAcc(a) ==                             \* strict pydantic validation of the annotation
  CASE a = "Int"    -> {"int"}
    [] a = "Num"    -> {"int", "float"}       \* strict float accepts an int
    [] a = "Bool"   -> {"bool"}
    [] a = "Str"    -> {"str"}
    [] a = "Arr"    -> NDArrays               \* NDArrayPydantic
    [] OTHER        -> {}

Acc(a) == CASE Class = "json" -> JsonAcc(a) [] Class = "simple" -> SimpleAcc(a) [] Class = "pydantic" -> PydanticAcc(a)
HasType(k, T) == \E a \in T : k \in Acc(a)

NamesType == IF Class = "json" THEN {"ArrNum"} ELSE {"Arr"}   \* update_from_names: NumPy arrays
DataType(k) ==                                                \* update_from_data: type of the value
  IF Class = "json"
  THEN CASE k = "int" -> {"Int"} [] k \in {"float", "cplx"} -> {"Num"} [] k = "bool" -> {"Bool"}
         [] k = "str" -> {"Str"} [] k \in {"farr", "flist"} -> {"ArrNum"}
         [] k \in {"iarr", "ilist", "tuple"} -> {"ArrInt"} [] k = "empty" -> {"Arr"}
  ELSE CASE k = "int" -> {"Int"} [] k = "float" -> {"Num"} [] k = "bool" -> {"Bool"}
         [] k = "str" -> {"Str"} [] k \in NDArrays -> {"Arr"}

(* merge = "the resulting grammar will allow any of the values" (JSONGrammar docstring).  The pairs    *)
(* below are left out of the modelled merge algebra (genson keeps the narrower array / drops "any"):   *)
(* recorded as an observation in the report, not demanded.                                             *)
MergeOK(T1, T2) == LET T == T1 \cup T2 IN
  /\ "Any" \notin T
  /\ ~("Arr" \in T /\ T \cap {"ArrNum", "ArrInt"} # {})

--------------------------------------------------------------------------------
(* the other grammars used by Update / UpdateFromSchema (built by the harness from this description) *)
Others == <<
  [elems |-> [a |-> {"Str"}, c |-> {"Int"}], req |-> {"a"},      dflt |-> [a |-> 2, c |-> 2]],
  [elems |-> [b |-> {"Num"}],                req |-> {},         dflt |-> [b |-> 2]],
  [elems |-> [a |-> {"Int"}, b |-> {"Arr"}], req |-> {"a", "b"}, dflt |-> <<>>] >>
ExclChoices == {{}, {"a"}}
(* the schemas offered to UpdateFromSchema: the same definitions, and one whose middle property is a    *)
(* nested object (its siblings come before and after it in the schema)                                  *)
SchemaOthers == Others \o <<
  [elems |-> [a |-> {"Str"}, b |-> {"Obj"}, c |-> {"Str"}], req |-> {"c"}, dflt |-> <<>>] >>

--------------------------------------------------------------------------------
Empty == [live |-> FALSE, elems |-> <<>>, req |-> {}, dflt |-> <<>>, toNs |-> <<>>, fromNs |-> <<>>]
Fresh == [Empty EXCEPT !.live = TRUE]

Cold == [val |-> FALSE, sch |-> FALSE, fail |-> FALSE]
IsJson == Class = "json"

Init == /\ g = [s \in Slots |-> IF s = 1 THEN Fresh ELSE Empty]
        /\ q = [s \in Slots |-> Cold]
        /\ h = 0

Live(s) == g[s].live
Dom(s) == DOMAIN g[s].elems
Step == h < MaxDepth /\ h' = h + 1
Set(s, G) == g' = [g EXCEPT ![s] = G] /\ q' = [q EXCEPT ![s] = Cold] /\ Step      \* edit of the definition
SetKeep(s, G) == g' = [g EXCEPT ![s] = G] /\ UNCHANGED q /\ Step                   \* edit of required/defaults
Same == UNCHANGED <<g, q>> /\ Step                                                \* rejected operation
Failed == UNCHANGED g /\ q' = [t \in Slots |-> [q[t] EXCEPT !.fail = TRUE]] /\ Step  \* an update that raised
On(op, s) == op \in Ops /\ s \in Slots /\ Live(s)
Put(G, n, T, m) == IF m /\ n \in DOMAIN G.elems THEN G.elems[n] \cup T ELSE T
Mergeable(G, n, T, m) == (m /\ n \in DOMAIN G.elems) => MergeOK(G.elems[n], T)
MergeArg(G, S, m) == m => (Class # "simple" /\ S \cap DOMAIN G.elems # {})

(* update_from_names(names, merge): the elements are NumPy arrays and become required *)
UpdateFromNames(s, S, m) ==
  /\ On("UpdateFromNames", s) /\ S # {} /\ S \subseteq Names
  /\ LET G == g[s] IN
       /\ MergeArg(G, S, m)
       /\ \A n \in S : Mergeable(G, n, NamesType, m)
       /\ Set(s, [G EXCEPT !.elems = Override(G.elems, [n \in S |-> Put(G, n, NamesType, m)]),
                           !.req = G.req \cup S])

(* update_from_types({n: type}, merge): the element becomes required *)
UpdateFromTypes(s, n, a, m) ==
  /\ On("UpdateFromTypes", s) /\ n \in Names /\ a \in TAtoms
  /\ LET G == g[s] IN
       /\ MergeArg(G, {n}, m)
       /\ Mergeable(G, n, {a}, m)
       /\ Set(s, [G EXCEPT !.elems = Override(G.elems, [x \in {n} |-> Put(G, n, {a}, m)]),
                           !.req = G.req \cup {n}])

(* update_from_data({n: value}, merge) *)
UpdateFromData(s, n, k, m) ==
  /\ On("UpdateFromData", s) /\ n \in Names /\ k \in DKinds
  /\ LET G == g[s] IN
       /\ MergeArg(G, {n}, m)
       /\ Mergeable(G, n, DataType(k), m)
       /\ Set(s, [G EXCEPT !.elems = Override(G.elems, [x \in {n} |-> Put(G, n, DataType(k), m)]),
                           !.req = G.req \cup {n}])

(* SimpleGrammar documents that merging raises; the grammar is left unchanged *)
RejectMerge(s, n) ==
  /\ On("RejectMerge", s) /\ Class = "simple" /\ n \in Names
  /\ Same

(* update(other, excluded_names, merge): elements, defaults and required names of other but the excluded *)
Update(s, o, X, m) ==
  /\ On("Update", s) /\ o \in 1..Len(Others) /\ X \in ExclChoices
  /\ LET G == g[s]
         O == Others[o]
         K == DOMAIN O.elems \ X
     IN /\ MergeArg(G, K, m)
        /\ \A n \in K : Mergeable(G, n, O.elems[n], m)
        /\ Set(s, [G EXCEPT !.elems = Override(G.elems, [n \in K |-> Put(G, n, O.elems[n], m)]),
                            !.dflt = Override(G.dflt, Without(O.dflt, X)),
                            !.req = G.req \cup (K \cap O.req)])

(* update_from_schema(schema): properties and required names of the schema (JSON grammars) *)
UpdateFromSchema(s, o) ==
  /\ On("UpdateFromSchema", s) /\ Class = "json" /\ o \in 1..Len(SchemaOthers)
  /\ LET G == g[s]
         O == SchemaOthers[o]
     IN Set(s, [G EXCEPT !.elems = Override(G.elems, O.elems), !.req = G.req \cup O.req])

(* an update that raises leaves the grammar unchanged (DESIGN 2.4), and the next edit of any grammar    *)
(* object means what it always means:                                                                   *)
(*   RejectSchema : update_from_schema(SchemaOthers[o] with one more property of an unknown JSON type   *)
(*                  in the middle)                                                                      *)
(*   RejectData   : update_from_data({n: value, another name: a value no JSON type describes})          *)
(*   OtherFails   : such an update fails on another grammar object (none of the modelled ones)          *)
RejectSchema(s, o) ==
  /\ On("RejectSchema", s) /\ Class = "json" /\ o \in 1..Len(SchemaOthers)
  /\ Failed
RejectData(s, n) ==
  /\ On("RejectData", s) /\ Class = "json" /\ n \in Names
  /\ Failed
OtherFails ==
  /\ "OtherFails" \in Ops /\ Class = "json"
  /\ Failed

(* to_file then JSONGrammar(file_path=...): the definition survives, defaults and namespaces do not *)
Reload(s) ==
  /\ On("Reload", s) /\ Class = "json"
  /\ Set(s, [Fresh EXCEPT !.elems = g[s].elems, !.req = g[s].req])

RestrictTo(s, S) ==
  /\ On("RestrictTo", s) /\ S \subseteq Dom(s) /\ S # Dom(s)
  /\ LET G == g[s] IN
       Set(s, [G EXCEPT !.elems = Restrict(G.elems, S), !.req = G.req \cap S, !.dflt = Restrict(G.dflt, S)])

(* restrict_to with an unknown name is documented to raise KeyError *)
RejectRestrict(s, n) ==
  /\ On("RejectRestrict", s) /\ n \in Names \ Dom(s)
  /\ Same

RenameIn(G, n, m) == [G EXCEPT !.elems = Move(G.elems, n, m), !.req = MoveSet(G.req, n, m),
                               !.dflt = Move(G.dflt, n, m)]

(* rename_element(n, m); renaming onto an existing element is not specified: not enabled *)
Rename(s, n, m) ==
  /\ On("Rename", s) /\ n \in Dom(s) /\ m \in Names \ Dom(s)
  /\ Set(s, RenameIn(g[s], n, m))

Delete(s, n) ==
  /\ On("Delete", s) /\ n \in Dom(s)
  /\ LET G == g[s] IN
       Set(s, [G EXCEPT !.elems = Without(G.elems, {n}), !.req = G.req \ {n}, !.dflt = Without(G.dflt, {n})])

RejectDelete(s, n) ==
  /\ On("RejectDelete", s) /\ n \in Names \ Dom(s)
  /\ Same

(* add_namespace(n, "n"): the element is renamed and the two maps record the renaming *)
AddNamespace(s, n) ==
  /\ On("AddNamespace", s) /\ n \in Names /\ n \in Dom(s) /\ Ns(n) \notin Dom(s)
  /\ LET G == RenameIn(g[s], n, Ns(n)) IN
       Set(s, [G EXCEPT !.toNs = Override(G.toNs, [x \in {n} |-> Ns(n)]),
                        !.fromNs = Override(G.fromNs, [x \in {Ns(n)} |-> n])])

Clear(s) == On("Clear", s) /\ Set(s, Fresh)

(* copy(): slot 2 becomes a copy of slot 1 *)
Copy == /\ "Copy" \in Ops /\ NSlots >= 2 /\ Live(1)
        /\ g' = [g EXCEPT ![2] = g[1]] /\ q' = [q EXCEPT ![2] = q[1]] /\ Step

(* pickle round trip: the same grammar *)
(* (the unpickled JSON grammar has its schema dictionary but no validator; the unpickled pydantic     *)
(* grammar has its model rebuilt: "validated" as far as path forming goes)                            *)
Pickle(s) == /\ On("Pickle", s) /\ UNCHANGED g /\ Step
             /\ q' = [q EXCEPT ![s] = [val |-> ~IsJson, sch |-> IsJson, fail |-> FALSE]]

SetDefault(s, n, v) ==
  /\ On("SetDefault", s) /\ n \in Dom(s) /\ v \in DefaultValues
  /\ SetKeep(s, [g[s] EXCEPT !.dflt = Override(@, [x \in {n} |-> v])])

(* a default for a name that is not an element is documented to raise KeyError *)
RejectDefault(s, n) ==
  /\ On("RejectDefault", s) /\ n \in Names \ Dom(s)
  /\ Same

DelDefault(s, n) ==
  /\ On("DelDefault", s) /\ n \in DOMAIN g[s].dflt
  /\ SetKeep(s, [g[s] EXCEPT !.dflt = Without(@, {n})])

Unrequire(s, n) ==
  /\ On("Unrequire", s) /\ n \in g[s].req
  /\ SetKeep(s, [g[s] EXCEPT !.req = @ \ {n}])

Require(s, n) ==
  /\ On("Require", s) /\ n \in Dom(s) \ g[s].req
  /\ SetKeep(s, [g[s] EXCEPT !.req = @ \cup {n}])

(* edits through the live required_names object (a MutableSet bound to the grammar):                *)
(*   add(n) remove(n) discard(n) clear()  rn |= S  rn -= S  rn &= S                                   *)
(* add / |= of a name that is not an element and remove of a name that is not required raise: not   *)
(* enabled here (RejectRequire).  None of them touches the elements: q is kept.                      *)
ReqAfter(R, op, S) ==
  CASE op \in {"add", "ior"}               -> R \cup S
    [] op \in {"remove", "discard", "isub"} -> R \ S
    [] op = "iand"                          -> R \cap S
    [] op = "clear"                         -> {}
ReqArgOK(G, op, S) ==
  CASE op = "add"     -> Cardinality(S) = 1 /\ S \subseteq DOMAIN G.elems
    [] op = "remove"  -> Cardinality(S) = 1 /\ S \subseteq G.req
    [] op = "discard" -> Cardinality(S) = 1 /\ S \subseteq DOMAIN G.elems \cup Names
    [] op = "clear"   -> S = {}
    [] op = "ior"     -> S # {} /\ S \subseteq DOMAIN G.elems
    [] op \in {"isub", "iand"} -> S # {} /\ S \subseteq DOMAIN G.elems
EditRequired(s, op, S) ==
  /\ On("EditRequired", s) /\ op \in ReqOps /\ ReqArgOK(g[s], op, S)
  /\ SetKeep(s, [g[s] EXCEPT !.req = ReqAfter(@, op, S)])

(* required_names.add of a name that is not an element raises KeyError *)
RejectRequire(s, n) ==
  /\ On("RejectRequire", s) /\ n \in Names \ Dom(s)
  /\ Same

(* read-only queries: the grammar is unchanged *)
Query(op, s) == op \in Ops /\ s \in Slots /\ Live(s) /\ UNCHANGED <<g, h>>
Validate(s) == Query("Validate", s) /\ q' = [q EXCEPT ![s].val = TRUE, ![s].sch = IsJson]
Schema(s)    == Query("Schema", s) /\ IsJson /\ q' = [q EXCEPT ![s].sch = TRUE]
ToJson(s)    == Query("ToJson", s) /\ IsJson /\ UNCHANGED q
ToSimple(s)  == Query("ToSimple", s) /\ IsJson /\ UNCHANGED q
Repr(s)      == Query("Repr", s) /\ UNCHANGED q

Next ==
  \/ \E s \in Slots : Validate(s) \/ Schema(s) \/ ToJson(s) \/ ToSimple(s) \/ Repr(s)
  \/ \E s \in Slots, m \in BOOLEAN :
       \/ \E S \in SUBSET Names : UpdateFromNames(s, S, m)
       \/ \E n \in Names, a \in TAtoms : UpdateFromTypes(s, n, a, m)
       \/ \E n \in Names, k \in DKinds : UpdateFromData(s, n, k, m)
       \/ \E o \in 1..Len(Others), X \in ExclChoices : Update(s, o, X, m)
  \/ \E s \in Slots :
       \/ \E o \in 1..Len(SchemaOthers) : UpdateFromSchema(s, o) \/ RejectSchema(s, o)
       \/ \E op \in ReqOps, S \in SUBSET AllNames : EditRequired(s, op, S)
       \/ Reload(s) \/ Clear(s) \/ Pickle(s)
       \/ \E S \in SUBSET AllNames : RestrictTo(s, S)
       \/ \E n \in AllNames, m \in Names : Rename(s, n, m)
       \/ \E n \in AllNames : Delete(s, n) \/ DelDefault(s, n) \/ Unrequire(s, n) \/ Require(s, n)
       \/ \E n \in Names : AddNamespace(s, n) \/ RejectMerge(s, n) \/ RejectRestrict(s, n)
                            \/ RejectDelete(s, n) \/ RejectDefault(s, n) \/ RejectRequire(s, n)
                            \/ RejectData(s, n)
       \/ \E n \in AllNames, v \in DefaultValues : SetDefault(s, n, v)
  \/ Copy \/ OtherFails

Spec == Init /\ [][Next]_vars

(* histories of at most MaxDepth edit operations (h), grammars of bounded size *)
Bound == /\ \A s \in Slots : /\ Cardinality(Dom(s)) <= MaxElems
                              /\ \A n \in Dom(s) : Cardinality(g[s].elems[n]) <= MaxAtoms

--------------------------------------------------------------------------------
(* the property *)
TypeOK == \A s \in Slots : LET G == g[s] IN
  /\ DOMAIN G.elems \subseteq AllNames
  /\ \A n \in DOMAIN G.elems : G.elems[n] # {} /\ G.elems[n] \subseteq Atoms
  /\ \A n \in DOMAIN G.dflt : G.dflt[n] \in DefaultValues
  /\ (~G.live => G = Empty)
  /\ h \in 0..MaxDepth
  /\ q[s] \in [val : BOOLEAN, sch : BOOLEAN, fail : BOOLEAN]

(* required names and defaults only refer to existing elements; the namespace maps are mutually       *)
(* inverse on the existing names                                                                       *)
WellFormedG(G) ==
  /\ G.req \subseteq DOMAIN G.elems
  /\ DOMAIN G.dflt \subseteq DOMAIN G.elems
  /\ \A n \in DOMAIN G.toNs : (G.toNs[n] \in DOMAIN G.elems) =>
         (G.toNs[n] \in DOMAIN G.fromNs /\ G.fromNs[G.toNs[n]] = n)
  /\ \A n \in DOMAIN G.fromNs : (n \in DOMAIN G.elems) =>
         (G.fromNs[n] \in DOMAIN G.toNs /\ G.toNs[G.fromNs[n]] = n)
WellFormed == \A s \in Slots : WellFormedG(g[s])

(* data is accepted exactly when it contains every required name and every present value has an      *)
(* allowed type (names that are not elements are ignored)                                              *)
Accepts(G, d) ==
  /\ G.req \subseteq DOMAIN d
  /\ \A n \in DOMAIN d \cap DOMAIN G.elems : HasType(d[n], G.elems[n])

(* read-only queries never change the grammar; rejected operations neither *)
QueriesPure == [][((\E s \in Slots :
                       \/ Validate(s) \/ Schema(s) \/ ToJson(s) \/ ToSimple(s) \/ Repr(s)
                       \/ (\E n \in Names : RejectMerge(s, n) \/ RejectRestrict(s, n) \/ RejectDelete(s, n)
                                             \/ RejectDefault(s, n) \/ RejectRequire(s, n) \/ RejectData(s, n))
                       \/ (\E o \in 1..Len(SchemaOthers) : RejectSchema(s, o)))
                    \/ OtherFails)
                   => UNCHANGED g]_vars
(* a copy is equal to its original and a pickle round trip is the identity *)
CopyEqual == [][Copy => g'[2] = g[1] /\ g'[1] = g[1]]_vars

(* the exported JSON schema (to_json / schema / to_file) *)
Export(G) == [properties |-> G.elems, required |-> G.req]

--------------------------------------------------------------------------------
(* probe data of a grammar: a valid base dictionary and its one-point variations *)
NaturalKinds == {"int", "float", "bool", "str", "farr", "iarr"}
Canon(T) == IF \E k \in NaturalKinds : HasType(k, T)
            THEN CHOOSE k \in NaturalKinds : HasType(k, T)
            ELSE CHOOSE k \in Kinds : HasType(k, T)
Base(G) == [n \in DOMAIN G.elems |-> Canon(G.elems[n])]
ExtraName == "zz"
ProbeData(G) ==
  LET B == Base(G) IN
     {B, <<>>}
     \cup {Without(B, {n}) : n \in DOMAIN B}
     \cup {Restrict(B, {n}) : n \in DOMAIN B}
     \cup {Override(B, [x \in {n} |-> k]) : n \in DOMAIN B, k \in Kinds}
     \cup {Override(B, [x \in {ExtraName} |-> k]) : k \in {"int", "dict"}}
     \cup {Override(B, [x \in {n} |-> "str"]) : n \in AllNames \ DOMAIN B}
Probes(G) == {[d |-> d, ok |-> Accepts(G, d)] : d \in ProbeData(G)}

(* JSON -> simple conversion: what the JSON element accepts among the natural python values must be  *)
(* accepted by the converted element (the converted type itself is the implementation's choice)       *)
ConversionMustAccept(G) == [n \in DOMAIN G.elems |-> {k \in NaturalKinds : HasType(k, G.elems[n])}]
================================================================================
