------------------------------ MODULE SharedCache ------------------------------
(***************************************************************************)
(* Several workers (threads of a parallel execution/linearization, or      *)
(* disciplines of a parallel chain) share ONE full cache                   *)
(* (gemseo/caches/base_full_cache.py).  Every public method of the cache   *)
(* is one atomic step (it runs under the cache lock):                      *)
(*   Get(w)           cache[x_w]                                           *)
(*   CacheOutputs(w)  cache.cache_outputs(x_w, G(x_w))                     *)
(*   CacheJacobian(w) cache.cache_jacobian(x_w, J(x_w))                    *)
(* The cache keeps ONE shared "last accessed index" that the two writers   *)
(* position (on a hit as well as on a new entry) before they write at it.  *)
(* Each worker runs the program of a discipline that is executed and then  *)
(* linearized:  Get, CacheOutputs, Get, CacheJacobian, Get.                *)
(* Workers may have equal inputs.  Values are identified with the input    *)
(* they belong to: out = x means "the outputs of x".                       *)
(***************************************************************************)
EXTENDS Naturals, Sequences, FiniteSets, TLC
CONSTANTS NWorkers, Inputs
VARIABLES x,        \* worker -> its input (chosen in Init)
          entries,  \* sequence of [in, out, jac]  (0: group absent)
          last,     \* the shared last accessed index
          pcw,      \* worker -> position in its program
          got,      \* worker -> what its last Get returned  [out, jac]
          sched     \* observation: the schedule <<w, op>>
vars == <<x, entries, last, pcw, got, sched>>
Workers == 1..NWorkers
Prog == <<"get", "out", "get", "jac", "get">>
Idx(v) == IF \E i \in 1..Len(entries) : entries[i].in = v
          THEN CHOOSE i \in 1..Len(entries) : entries[i].in = v ELSE 0
NoRet == [out |-> 0, jac |-> 0]

Init == /\ x \in [Workers -> Inputs] /\ entries = <<>> /\ last = 0
        /\ pcw = [w \in Workers |-> 1] /\ got = [w \in Workers |-> NoRet] /\ sched = <<>>

Step(w, op) == pcw[w] <= Len(Prog) /\ Prog[pcw[w]] = op /\ pcw' = [pcw EXCEPT ![w] = @ + 1]
               /\ sched' = Append(sched, <<w, op>>) /\ UNCHANGED x

Get(w) == /\ Step(w, "get")
          /\ got' = [got EXCEPT ![w] = IF Idx(x[w]) = 0 THEN NoRet
                                       ELSE [out |-> entries[Idx(x[w])].out, jac |-> entries[Idx(x[w])].jac]]
          /\ UNCHANGED <<entries, last>>

\* __ensure_input_data_exists: position the shared index on the entry of v (created if missing)
Ensure(v) == IF Idx(v) = 0 THEN Append(entries, [in |-> v, out |-> 0, jac |-> 0]) ELSE entries
EnsIdx(v) == IF Idx(v) = 0 THEN Len(entries) + 1 ELSE Idx(v)

CacheOutputs(w) ==
  /\ Step(w, "out")
  /\ LET e == Ensure(x[w])  i == EnsIdx(x[w]) IN
       /\ last' = i
       /\ entries' = (IF e[i].out # 0 THEN e ELSE [e EXCEPT ![i].out = x[w]])
  /\ UNCHANGED got
CacheJacobian(w) ==
  /\ Step(w, "jac")
  /\ LET e == Ensure(x[w])  i == EnsIdx(x[w]) IN
       /\ last' = i
       /\ entries' = (IF e[i].jac # 0 THEN e ELSE [e EXCEPT ![i].jac = x[w]])
  /\ UNCHANGED got
Next == \E w \in Workers : Get(w) \/ CacheOutputs(w) \/ CacheJacobian(w)
Spec == Init /\ [][Next]_vars /\ WF_vars(Next)

Done == \A w \in Workers : pcw[w] > Len(Prog)
\* ---- C13 "including when workers share a cache" / C05 transparency under sharing
\* an entry only ever holds the outputs and the Jacobian of its own input
EntriesOwnData == \A i \in 1..Len(entries) : entries[i].out \in {0, entries[i].in} /\ entries[i].jac \in {0, entries[i].in}
\* a worker is never served another input's data
GetOwnData == \A w \in Workers : got[w].out \in {0, x[w]} /\ got[w].jac \in {0, x[w]}
\* at the end the cache is the one a sequential run leaves: one complete entry per distinct input
SameAsSequential == Done =>
   /\ Len(entries) = Cardinality({x[w] : w \in Workers})
   /\ \A i \in 1..Len(entries) : entries[i].out = entries[i].in /\ entries[i].jac = entries[i].in
   /\ \A w \in Workers : got[w] = [out |-> x[w], jac |-> x[w]]
NoDuplicates == \A i, j \in 1..Len(entries) : entries[i].in = entries[j].in => i = j
Live == <>Done
View == <<x, entries, last, pcw, got>>
Schedules == Done => PrintT(<<"SCHED", x, sched, entries>>)
=============================================================================
