---------------------------- MODULE HDFStoreMerge ----------------------------
(* C11 - HDFStoreImpl with a second file: between the (append) exports of the   *)
(* working database to its own file, update_from_hdf reads OTHER files written  *)
(* by other databases (HDFStoreImpl!UpdateFrom).  The other file is a parameter *)
(* of the action, not a variable: it is any database of at most MaxForeign      *)
(* entries over the keys and names of the configuration, so every combination   *)
(* "new points / new outputs at points already exported / nothing new, in any   *)
(* order" is enumerated at every state.  The state variables, the invariants    *)
(* (RoundTrip, AppendEqualsFull, IndexConsistency, PendingCovers, ...), the     *)
(* step property and the refinement of HDFStore are those of HDFStoreImpl.      *)
(* (A separate module because HDFStoreImpl is instantiated by other modules,    *)
(* which must not acquire a new constant.)                                      *)
EXTENDS HDFStoreImpl
CONSTANT MaxForeign      \* the other file holds at most MaxForeign points
ASSUME MaxForeign \in 1..NKeys

MNext == \/ Next
         \/ \E d \in Abs!ForeignFiles(MaxForeign) : UpdateFrom(d)
MSpec == Init /\ [][MNext]_vars
=============================================================================
