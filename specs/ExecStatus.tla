----------------------------- MODULE ExecStatus -----------------------------
(* Specification growth G01 (outside the listed properties).                  *)
(* The execution status automaton and the execution statistics of ONE         *)
(* monitored process, as gemseo.core.execution_status.ExecutionStatus and      *)
(* gemseo.core.execution_statistics.ExecutionStatistics code them, driven      *)
(* through their public API only (setter, handle, add/remove_observer,         *)
(* record_execution/record_linearization, counters' getters and setters, the   *)
(* class switch is_enabled, pickling).  ExecStatusProc composes the same       *)
(* definitions (ExecStatusDefs) into disciplines and an MDOChain.              *)
(*                                                                             *)
(* One action = one public call.  Besides the state of the two objects the     *)
(* module keeps the *outputs* of the last call: emit (notifications received   *)
(* by the observers, in order), res (returned / raised) and seen (what the     *)
(* three getters answer), which the binding compares with the real objects.    *)
EXTENDS ExecStatusDefs

CONSTANTS
    Obs,          \* observers (OneShot \subseteq Obs detach themselves when notified)
    SetVals,      \* values given to the setter (statuses and the alien "bad")
    HandleVals,   \* statuses given to handle()
    Kinds,        \* \subseteq {"exec","lin","none"}: handle(., record_execution|record_linearization|-, body)
    Bodies,       \* \subseteq {"ok", "raise", "nestedRUNNING", "nestedLINEARIZING"}: what the monitored function does
    CounterVals,  \* values given to the counters' setters
    MaxCnt, MaxDur

P == {"u"}
VARIABLES st, att, en, nx, nl, du, emit, res, seen
vars == <<st, att, en, nx, nl, du, emit, res, seen>>

World == [st |-> st, att |-> att, en |-> en, nx |-> nx, nl |-> nl, du |-> du, emit |-> <<>>, t |-> 0]
SeenOf(e, x, l, d) == [p \in P |-> IF e THEN <<x[p], l[p], d[p]>> ELSE <<None, None, None>>]

Commit(r) ==
    /\ st' = r.w.st /\ att' = r.w.att /\ nx' = r.w.nx /\ nl' = r.w.nl /\ du' = r.w.du
    /\ emit' = r.w.emit /\ res' = r.err /\ en' = en
    /\ seen' = SeenOf(en', nx', nl', du')

Init ==
    /\ st = [p \in P |-> "DONE"] /\ att = [p \in P |-> {}] /\ en = TRUE
    /\ nx = [p \in P |-> 0] /\ nl = [p \in P |-> 0] /\ du = [p \in P |-> 0]
    /\ emit = <<>> /\ res = OkRes /\ seen = SeenOf(TRUE, nx, nl, du)

Cost(kind) == IF kind = "lin" THEN 2 ELSE 1

\* the monitored function: returns, raises, or re-enters handle() on the same status object
RunBody(w, p, b, n) ==
    CASE b = "ok"    -> Ok(Tick(w, n))
      [] b = "raise" -> R(FALSE, Boom(p, "body"), Tick(w, n))
      [] b = "nestedRUNNING"     -> Handle(Tick(w, n), p, "RUNNING", "none", LAMBDA v : Ok(v))
      [] b = "nestedLINEARIZING" -> Handle(Tick(w, n), p, "LINEARIZING", "none", LAMBDA v : Ok(v))

\* execution_status.value = s
Set(p, s) == p \in P /\ Commit(SetTo(World, p, s))

\* execution_status.handle(s, execution_statistics.record_<kind>, body)   [_execute_monitored, linearize]
HandleCall(p, s, kind, b) ==
    p \in P /\ Commit(Handle(World, p, s, kind, LAMBDA v : RunBody(v, p, b, Cost(kind))))

\* execution_statistics.record_<kind>(body) without status
RecordCall(p, kind, b) ==
    /\ kind # "none" /\ b \in {"ok", "raise"}
    /\ Commit(Record(World, p, kind, LAMBDA v : RunBody(v, p, b, Cost(kind))))

AddObs(p, o)    == p \in P /\ Commit(Ok([World EXCEPT !.att[p] = @ \cup {o}]))
RemoveObs(p, o) == p \in P /\ Commit(Ok([World EXCEPT !.att[p] = @ \ {o}]))

\* ExecutionStatistics.is_enabled = not ExecutionStatistics.is_enabled   (class attribute)
Toggle ==
    /\ en' = ~en /\ UNCHANGED <<st, att, nx, nl, du>>
    /\ emit' = <<>> /\ res' = OkRes /\ seen' = SeenOf(en', nx', nl', du')

\* the setters of n_executions / n_linearizations / duration: RuntimeError while disabled
SetCounter(p, which, v) ==
    p \in P /\ IF ~en THEN Commit(R(FALSE, <<"Disabled", p, which, "-">>, World))
    ELSE Commit(Ok([World EXCEPT !.nx[p] = IF which = "nx" THEN v ELSE @,
                                 !.nl[p] = IF which = "nl" THEN v ELSE @,
                                 !.du[p] = IF which = "du" THEN v ELSE @]))

\* pickle round trip of both objects (serializable.py + _ATTR_NOT_TO_SERIALIZE as coded):
\* the status and the counters come back, the observers do not
Pickle(p) == p \in P /\ Commit(Ok([World EXCEPT !.att[p] = {}]))

Next ==
    \/ \E p \in P, s \in SetVals : Set(p, s)
    \/ \E p \in P, s \in HandleVals, k \in Kinds, b \in Bodies : HandleCall(p, s, k, b)
    \/ \E p \in P, k \in Kinds, b \in Bodies : RecordCall(p, k, b)
    \/ \E p \in P, o \in Obs : AddObs(p, o) \/ RemoveObs(p, o)
    \/ Toggle
    \/ \E p \in P, which \in {"nx", "nl", "du"}, v \in CounterVals : SetCounter(p, which, v)
    \/ \E p \in P : Pickle(p)

Spec == Init /\ [][Next]_vars

Bound == \A p \in P : nx[p] <= MaxCnt /\ nl[p] <= MaxCnt /\ du[p] <= MaxDur

-----------------------------------------------------------------------------
TypeOK ==
    /\ st \in [P -> Statuses] /\ att \in [P -> SUBSET Obs] /\ en \in BOOLEAN
    /\ nx \in [P -> Nat] /\ nl \in [P -> Nat] /\ du \in [P -> Nat]
    /\ res \in Seq(STRING) /\ Len(res) = 4

\* the getters answer None exactly while disabled, the stored values otherwise
SeenOK == seen = SeenOf(en, nx, nl, du)

\* a one-shot observer is notified at most once per attachment: never by two notifications of one call
OneShotOnce ==
    \A i, j \in 1..Len(emit) : (i < j /\ emit[i][1] = emit[j][1]) => (emit[i][3] \cap emit[j][3] \cap OneShot = {})

\* the observers see exactly the sequence of status settings: what a call emitted is a chain of accepted
\* settings from the old status to the new one (no silent change, no notification without setting)
EmitChain == [][\A p \in P : ChainOK(st[p], EmitOf(emit', p), st'[p])]_vars

\* a setting refused at the entry of the call (against the status the call found) changes nothing and notifies
\* nobody; a refusal met inside the monitored function (re-entrance) is an exception of the body: FAILED
RefusedAtEntry == res'[1] \in {"Invalid", "Disabled"} \/ (res'[1] = "Refused" /\ res'[4] = st[res'[2]])
RefusalIsSilent == [][RefusedAtEntry => (emit' = <<>> /\ UNCHANGED <<st, att, nx, nl, du>>)]_vars

\* nothing is recorded while disabled; a call that raised records nothing
DisabledRecordsNothing == [][~en => UNCHANGED <<nx, nl, du>>]_vars
FailedRecordsNothing   == [][res'[1] # "ok" => UNCHANGED <<nx, nl, du>>]_vars

\* handle(): ends DONE when the body returned, FAILED when it raised, unchanged when refused at entry
HandleOutcome ==
    [][\A p \in P : (emit' # <<>> /\ emit'[1][2] \in Guarded /\ Len(emit') >= 2) =>
          st'[p] = (IF res'[1] = "ok" THEN "DONE" ELSE "FAILED")]_vars

\* FAILED is left only by an explicit setting of the status (one notification): no handle() of a guarded
\* status can start from FAILED - a process that failed once refuses to run until somebody resets it
FailedIsSticky == [][\A p \in P : (st[p] = "FAILED" /\ st'[p] # "FAILED") => Len(emit') = 1]_vars
=============================================================================
