----------------------------- MODULE ExecStatus -----------------------------
(* Specification growth G01 (outside the listed properties).                  *)
(* The execution status automaton and the execution statistics of ONE         *)
(* monitored process, as gemseo.core.execution_status.ExecutionStatus and      *)
(* gemseo.core.execution_statistics.ExecutionStatistics code them, driven      *)
(* through their public API only (setter, handle, add/remove_observer,         *)
(* record_execution/record_linearization, counters' getters and setters, the   *)
(* class switch is_enabled, pickling).  ExecStatusProc composes the same       *)
(* definitions (ExecStatusDefs) into disciplines and an MDOChain.              *)
(*                                                                             *)
(* One action = one public call.  Every call is a function XxxR(args) of the   *)
(* current state returning [ok, err, w]: the action commits w; the *outputs*   *)
(* of the call (result r.err, notifications r.w.emit received by the observers *)
(* in order) label the transition - they are not variables, so they do not     *)
(* multiply the states.  `seen` is what the three getters answer in the state. *)
(* `Dump` (an "invariant" that prints) writes, for every reachable state, the  *)
(* state and its labelled out-transitions <<call, result, notifications, next  *)
(* state>>: the binding replays a transition tour of that graph on real        *)
(* objects and compares result, notifications, status and seen after each call.*)
EXTENDS ExecStatusDefs

CONSTANTS
    Obs,          \* observers (OneShot \subseteq Obs detach themselves when notified)
    SetVals,      \* values given to the setter (statuses and the alien "bad")
    HandleVals,   \* statuses given to handle()
    Kinds,        \* \subseteq {"exec","lin","none"}: handle(., record_execution|record_linearization|-, body)
    Bodies,       \* \subseteq {"ok", "raise", "nestedRUNNING", "nestedLINEARIZING"}: what the monitored function does
    CounterVals,  \* values given to the counters' setters
    MaxCnt, MaxDur

P == {"u"}
VARIABLES st, att, en, nx, nl, du, seen
vars == <<st, att, en, nx, nl, du, seen>>

World == TLCEval([st |-> st, att |-> att, en |-> en, nx |-> nx, nl |-> nl, du |-> du, emit |-> <<>>, t |-> 0])
SeenOf(e, x, l, d) == TLCEval([p \in P |-> IF e THEN <<x[p], l[p], d[p]>> ELSE <<None, None, None>>])
StateOf(w) == [st |-> w.st, att |-> w.att, en |-> w.en, nx |-> w.nx, nl |-> w.nl, du |-> w.du,
               seen |-> SeenOf(w.en, w.nx, w.nl, w.du)]
Edge(call, r) == <<call, r.err, r.w.emit, StateOf(r.w)>>

Commit(r) ==
    /\ st' = r.w.st /\ att' = r.w.att /\ nx' = r.w.nx /\ nl' = r.w.nl /\ du' = r.w.du /\ en' = r.w.en
    /\ seen' = SeenOf(en', nx', nl', du')

Init ==
    /\ st = [p \in P |-> "DONE"] /\ att = [p \in P |-> {}] /\ en = TRUE
    /\ nx = [p \in P |-> 0] /\ nl = [p \in P |-> 0] /\ du = [p \in P |-> 0]
    /\ seen = SeenOf(TRUE, nx, nl, du)

Cost(kind) == IF kind = "lin" THEN 2 ELSE 1

\* the monitored function: returns, raises, or re-enters handle() on the same status object
RunBody(w, p, b, n) ==
    CASE b = "ok"    -> Ok(Tick(w, n))
      [] b = "raise" -> R(FALSE, Boom(p, "body"), Tick(w, n))
      [] b = "nestedRUNNING"     -> Handle(Tick(w, n), p, "RUNNING", "none", LAMBDA v : Ok(v))
      [] b = "nestedLINEARIZING" -> Handle(Tick(w, n), p, "LINEARIZING", "none", LAMBDA v : Ok(v))

\* execution_status.value = s
SetR(p, s) == SetTo(World, p, s)
\* execution_status.handle(s, execution_statistics.record_<kind>, body)   [_execute_monitored, linearize]
HandleR(p, s, kind, b) == Handle(World, p, s, kind, LAMBDA v : RunBody(v, p, b, Cost(kind)))
\* execution_statistics.record_<kind>(body) without status
RecordR(p, kind, b) == Record(World, p, kind, LAMBDA v : RunBody(v, p, b, Cost(kind)))
AddObsR(p, o)    == Ok([World EXCEPT !.att[p] = @ \cup {o}])
RemoveObsR(p, o) == Ok([World EXCEPT !.att[p] = @ \ {o}])
\* ExecutionStatistics.is_enabled = not ExecutionStatistics.is_enabled   (class attribute)
ToggleR == Ok([World EXCEPT !.en = ~@])
\* the setters of n_executions / n_linearizations / duration: RuntimeError while disabled
SetCounterR(p, which, v) ==
    IF ~en THEN R(FALSE, <<"Disabled", p, which, "-">>, World)
    ELSE Ok([World EXCEPT !.nx[p] = IF which = "nx" THEN v ELSE @,
                          !.nl[p] = IF which = "nl" THEN v ELSE @,
                          !.du[p] = IF which = "du" THEN v ELSE @])
\* pickle round trip of both objects (serializable.py + _ATTR_NOT_TO_SERIALIZE as coded):
\* the status and the counters come back, the observers do not
PickleR(p) == Ok([World EXCEPT !.att[p] = {}])

Set(p, s)              == p \in P /\ Commit(SetR(p, s))
HandleCall(p, s, k, b) == p \in P /\ Commit(HandleR(p, s, k, b))
RecordCall(p, k, b)    == p \in P /\ Commit(RecordR(p, k, b))
AddObs(p, ob)          == p \in P /\ Commit(AddObsR(p, ob))
RemoveObs(p, ob)       == p \in P /\ Commit(RemoveObsR(p, ob))
Toggle                 == TRUE /\ Commit(ToggleR)
SetCounter(p, c, v)    == p \in P /\ Commit(SetCounterR(p, c, v))
Pickle(p)              == p \in P /\ Commit(PickleR(p))

RecKinds == Kinds \ {"none"}
RecBodies == Bodies \cap {"ok", "raise"}
Next ==
    \/ \E p \in P, s \in SetVals : Set(p, s)
    \/ \E p \in P, s \in HandleVals, k \in Kinds, b \in Bodies : HandleCall(p, s, k, b)
    \/ \E p \in P, k \in RecKinds, b \in RecBodies : RecordCall(p, k, b)
    \/ \E p \in P, ob \in Obs : AddObs(p, ob) \/ RemoveObs(p, ob)
    \/ Toggle
    \/ \E p \in P, c \in {"nx", "nl", "du"}, v \in CounterVals : SetCounter(p, c, v)
    \/ \E p \in P : Pickle(p)

Spec == Init /\ [][Next]_vars
\* (two names: TLC's coverage mode cannot evaluate the CONSTRAINT operator inside another definition)
InBound == \A p \in P : nx[p] <= MaxCnt /\ nl[p] <= MaxCnt /\ du[p] <= MaxDur

\* the labelled state graph: one JSON line per reachable state (run with one worker)
Edges == <<
    {Edge(<<"Set", p, s>>, SetR(p, s)) : p \in P, s \in SetVals},
    {Edge(<<"HandleCall", p, s, k, b>>, HandleR(p, s, k, b)) : p \in P, s \in HandleVals, k \in Kinds, b \in Bodies},
    {Edge(<<"RecordCall", p, k, b>>, RecordR(p, k, b)) : p \in P, k \in RecKinds, b \in RecBodies},
    {Edge(<<"AddObs", p, ob>>, AddObsR(p, ob)) : p \in P, ob \in Obs},
    {Edge(<<"RemoveObs", p, ob>>, RemoveObsR(p, ob)) : p \in P, ob \in Obs},
    {Edge(<<"Toggle">>, ToggleR)},
    {Edge(<<"SetCounter", p, c, v>>, SetCounterR(p, c, v)) : p \in P, c \in {"nx", "nl", "du"}, v \in CounterVals},
    {Edge(<<"Pickle", p>>, PickleR(p)) : p \in P} >>
AtInit == StateOf(World) = [st |-> [p \in P |-> "DONE"], att |-> [p \in P |-> {}], en |-> TRUE,
                             nx |-> [p \in P |-> 0], nl |-> [p \in P |-> 0], du |-> [p \in P |-> 0],
                             seen |-> [p \in P |-> <<0, 0, 0>>]]
Bound == InBound
Dump == InBound => PrintT(ToJson(<<"G", AtInit, StateOf(World), Edges>>))   \* states outside the bound are not nodes

-----------------------------------------------------------------------------
\* The properties are stated on every call possible in a state (its result r against the state it starts from)
SetResults    == {SetR(p, s) : p \in P, s \in SetVals}
HandleResults == {HandleR(p, s, k, b) : p \in P, s \in HandleVals, k \in Kinds, b \in Bodies}
RecordResults == {RecordR(p, k, b) : p \in P, k \in RecKinds, b \in RecBodies}
OtherResults  == {AddObsR(p, ob) : p \in P, ob \in Obs} \cup {RemoveObsR(p, ob) : p \in P, ob \in Obs}
                 \cup {ToggleR} \cup {PickleR(p) : p \in P}
                 \cup {SetCounterR(p, c, v) : p \in P, c \in {"nx", "nl", "du"}, v \in CounterVals}
Results == SetResults \cup HandleResults \cup RecordResults \cup OtherResults
SameCounters(w) == w.nx = nx /\ w.nl = nl /\ w.du = du

TypeOK ==
    /\ st \in [P -> Statuses] /\ att \in [P -> SUBSET Obs] /\ en \in BOOLEAN
    /\ nx \in [P -> Nat] /\ nl \in [P -> Nat] /\ du \in [P -> Nat]

\* the getters answer None exactly while disabled, the stored values otherwise
SeenOK == seen = SeenOf(en, nx, nl, du)

\* the observers see exactly the sequence of status settings: what a call emits is a chain of accepted
\* settings from the old status to the new one (no silent change, no notification without setting)
EmitChain == \A r \in Results : \A p \in P : ChainOK(st[p], EmitOf(r.w.emit, p), r.w.st[p])

\* every notification goes to observers attached when the call began, and a one-shot observer is notified at
\* most once per attachment: never by two notifications of one call
OneShotOnce ==
    \A r \in Results : \A i, j \in 1..Len(r.w.emit) :
        /\ r.w.emit[i][3] \subseteq att[r.w.emit[i][1]]
        /\ (i < j /\ r.w.emit[i][1] = r.w.emit[j][1]) => (r.w.emit[i][3] \cap r.w.emit[j][3] \cap OneShot = {})

\* a setting refused at the entry of the call (against the status the call finds) changes nothing and notifies
\* nobody; a refusal met inside the monitored function (re-entrance) is an exception of the body: FAILED
RefusedAtEntry(r) == r.err[1] \in {"Invalid", "Disabled"} \/ (r.err[1] = "Refused" /\ r.err[4] = st[r.err[2]])
RefusalIsSilent == \A r \in Results : RefusedAtEntry(r) => (r.w = World)

\* nothing is recorded while disabled; a call that raised records nothing
DisabledRecordsNothing == ~en => \A r \in Results : SameCounters(r.w)
FailedRecordsNothing   == \A r \in Results : ~r.ok => SameCounters(r.w)
\* a monitored call that returned recorded exactly one call of its kind and the ticks of its body
SuccessRecordsOne ==
    \A p \in P, s \in HandleVals, k \in RecKinds, b \in Bodies :
        LET r == HandleR(p, s, k, b)
        IN (r.ok /\ en) => /\ r.w.nx[p] = nx[p] + (IF k = "exec" THEN 1 ELSE 0)
                           /\ r.w.nl[p] = nl[p] + (IF k = "lin" THEN 1 ELSE 0)
                           /\ r.w.du[p] = du[p] + Cost(k)

\* handle(): ends DONE when the body returned, FAILED when it raised, unchanged when refused at entry
HandleOutcome ==
    \A r \in HandleResults : \A p \in P :
        r.w.st[p] = (IF r.ok THEN "DONE" ELSE IF RefusedAtEntry(r) THEN st[p] ELSE "FAILED")

\* FAILED is left only by an explicit setting of the status (one notification): no handle() of a guarded
\* status can start from FAILED - a process that failed once refuses to run until somebody resets it
FailedIsSticky ==
    \A r \in Results : \A p \in P : (st[p] = "FAILED" /\ r.w.st[p] # "FAILED") => r \in SetResults
=============================================================================
