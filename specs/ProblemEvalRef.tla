----------------------------- MODULE ProblemEvalRef -----------------------------
(***************************************************************************)
(* C01 - caller-owned arrays.                                              *)
(*                                                                         *)
(* ProblemEval has value semantics: a request IS a vector, a return IS a   *)
(* vector / matrix.  In the code they are numpy arrays passed and returned *)
(* BY REFERENCE: the argument of evaluate / jac / evaluate_functions is a  *)
(* cell owned by the caller (an iterative driver re-uses its x buffer),    *)
(* and what a call returns is a cell the caller may edit in place as well. *)
(* This module adds the two cells and the caller's in-place edits:         *)
(*   arg    the array given to the last call (contents now)                *)
(*   rets   the arrays returned by the last call (contents now)            *)
(*   MutateArg(j)     arg[:] = another request                             *)
(*   MutateReturned   every returned array += 1                            *)
(* The property (every clause of ProblemEval, stated over db / orig / ret) *)
(* must be insensitive to both: CallerCannotCorrupt, and the later calls   *)
(* are again the unchanged actions of ProblemEval (a request at a recorded *)
(* point is served from the database with the first result).               *)
(*                                                                         *)
(* Non-vacuity: the two implementation-shaped switches                     *)
(*   KeyByRef    a key appended by a call that hands its argument through  *)
(*               to the database (functions taking physical coordinates)   *)
(*               IS the caller's array                                     *)
(*   ValueByRef  an array returned by a database-backed function IS the    *)
(*               recorded object                                           *)
(* must be refuted by TLC; the oracle for the implementation has both      *)
(* FALSE.                                                                  *)
(*                                                                         *)
(* Bounds: a behaviour has at most BaseLevel - 1 calls of ProblemEval and  *)
(* at most MaxMut edits; MaxLevel (ProblemEval's Guard) must be            *)
(* BaseLevel + MaxMut.                                                     *)
(***************************************************************************)
EXTENDS ProblemEval

CONSTANTS KeyByRef, ValueByRef, BaseLevel, MaxMut

VARIABLES arg,    \* [val : the contents of the caller's argument array (<<>>: none), key : index of the db entry
                  \*  whose key is that very array (0: none; only under KeyByRef)]
          rets,   \* [outs, jacs : fn -> contents of the returned array (<<>>: none), idx : db entry whose
                  \*  records are those very arrays (0: none; only under ValueByRef), mutated]
          nmut    \* number of edits so far
varsR == <<cfg, sp, db, orig, ret, arg, rets, nmut>>

ASSUME MaxLevel = BaseLevel + MaxMut

NoArg == [val |-> <<>>, key |-> 0]
NoRets == [outs |-> NoVals, jacs |-> NoVals, idx |-> 0, mutated |-> FALSE]

InitR == Init /\ arg = NoArg /\ rets = NoRets /\ nmut = 0

\* the array the caller gave to the call c (as named by ret.call)
ArgOf(c) == IF c[1] \in {"EvalF", "EvalJ"} THEN c[3] ELSE IF c[1] = "EvalAll" THEN c[2] ELSE <<>>
\* the argument reaches Database.store as it is (no conversion of coordinates on the way)
HandedThrough(c) == /\ cfg.useDb /\ ~cfg.normalize
                    /\ (c[1] \in {"EvalF", "EvalJ"} \/ (c[1] = "EvalAll" /\ ~c[3]))

\* a public call of ProblemEval (conjoined AFTER the action of ProblemEval): the cells are those of this call
Cells ==
    /\ TLCGet("level") - nmut < BaseLevel
    /\ nmut' = nmut
    /\ arg' = [val |-> ArgOf(ret'.call),
               key |-> IF KeyByRef /\ HandedThrough(ret'.call) /\ Len(db') > Len(db) THEN Len(db') ELSE 0]
    /\ rets' = [outs |-> ret'.outs, jacs |-> ret'.jacs, mutated |-> FALSE,
                idx |-> IF ValueByRef /\ cfg.useDb /\ ret'.x # <<>> THEN Find(db', Key(ret'.x)) ELSE 0]

\* (the records are what the edits could reach: without a database there is nothing to protect)
MutGuard == TLCGet("level") < MaxLevel /\ nmut < MaxMut /\ cfg.useDb

\* the caller overwrites, in place, the array it gave to the last call (x[:] = next point)
MutateArg(j) ==
    /\ MutGuard
    /\ arg.val # <<>>
    /\ j <= Len(ReqSeq) /\ ReqSeq[j] # arg.val
    /\ LET new == ReqSeq[j] IN
       /\ arg' = [arg EXCEPT !.val = new]
       /\ db' = IF arg.key # 0 THEN [db EXCEPT ![arg.key].key = new] ELSE db
       /\ ret' = [NoRet EXCEPT !.call = <<"MutateArg", new>>]
    /\ nmut' = nmut + 1
    /\ UNCHANGED <<cfg, sp, orig, rets>>

BumpV(v) == [i \in 1..Len(v) |-> v[i] + S]
BumpM(m) == [r \in 1..Len(m) |-> BumpV(m[r])]
\* the caller edits, in place, every array the last call returned (v += 1)
MutateReturned ==
    /\ MutGuard
    /\ ~rets.mutated
    /\ \E f \in FnSet : rets.outs[f] # <<>> \/ rets.jacs[f] # <<>>
    /\ rets' = [rets EXCEPT !.mutated = TRUE,
                            !.outs = [f \in FnSet |-> BumpV(rets.outs[f])],
                            !.jacs = [f \in FnSet |-> BumpM(rets.jacs[f])]]
    /\ db' = IF rets.idx = 0 THEN db
             ELSE [db EXCEPT ![rets.idx].vals = [f \in FnSet |->
                                  IF rets.outs[f] # <<>> THEN BumpV(rets.outs[f]) ELSE @[f]],
                             \* (the Jacobian in normalised coordinates is computed from the record)
                             ![rets.idx].jacs = [f \in FnSet |->
                                  IF rets.jacs[f] # <<>> /\ ~cfg.normalize /\ @[f] # <<>>
                                  THEN BumpM(rets.jacs[f]) ELSE @[f]]]
    /\ ret' = [NoRet EXCEPT !.call = <<"MutateReturned">>]
    /\ nmut' = nmut + 1
    /\ UNCHANGED <<cfg, sp, orig, arg>>

CEvalF(f, i) == EvalF(f, i) /\ Cells
CEvalJ(f, i) == EvalJ(f, i) /\ Cells
CEvalAll(i, g, wj) == EvalAll(i, g, wj) /\ Cells
CPreprocess(c) == Preprocess(c) /\ Cells
CRepreprocess(c) == Repreprocess(c) /\ Cells

NextR == \/ \E f \in FnSet, i \in 1..MaxReq : CEvalF(f, i)
         \/ \E f \in FnSet, i \in 1..MaxReq : CEvalJ(f, i)
         \/ \E i \in 1..3, g \in BOOLEAN, wj \in BOOLEAN : CEvalAll(i, g, wj)
         \/ \E c \in CfgSpace : CPreprocess(c)
         \/ \E c \in CfgSpace : CRepreprocess(c)
         \/ \E j \in 1..MaxReq : MutateArg(j)
         \/ MutateReturned
SpecR == InitR /\ [][NextR]_varsR

IsEdit(c) == c[1] \in {"MutateArg", "MutateReturned"}
\* what the caller does with its own arrays after a call changes neither the records nor the memo
CallerCannotCorrupt == [][IsEdit(ret'.call) => db' = db /\ orig' = orig /\ cfg' = cfg]_varsR
TypeOKR == /\ nmut \in 0..MaxMut
           /\ arg.key \in 0..Len(db) /\ rets.idx \in 0..Len(db)
           /\ (~KeyByRef => arg.key = 0) /\ (~ValueByRef => rets.idx = 0)
================================================================================
