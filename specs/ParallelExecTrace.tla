--------------------------- MODULE ParallelExecTrace ---------------------------
(* Validates event traces recorded from the real CallableParallelExecution     *)
(* (thread back-end, logging queue test double: events are emitted inside the  *)
(* queue's own mutex, i.e. at the linearization point of each put/get).        *)
(* A trace covers SEVERAL consecutive executions on one executor object: each   *)
(* starts with a "start" event (number of tasks, failing tasks, re-raised ones) *)
(* and ends with "return" or "raise".  A batch of traces with the same NWorkers *)
(* is validated per TLC run.                                                    *)
EXTENDS ParallelExec, Json, IOUtils, TLCExt
Traces == JsonDeserialize(IOEnv.TRACE_FILE)   \* <<[id, events], ...>>
VARIABLES tid, l
tvars == <<vars, tid, l>>
T == Traces[tid]
Ev == T.events[l]
ToSet(s) == {s[i] : i \in 1..Len(s)}

TInit == /\ Init
         /\ tid \in 1..Len(Traces)
         /\ l = 1

IsEv(name) == l <= Len(T.events) /\ Ev.ev = name /\ l' = l + 1 /\ UNCHANGED tid
Silent == UNCHANGED <<tid, l>>

\* --- logged steps: the spec action + the logged fields must agree
\* a new call of execute on the same object: the recorded tasks select the branch of Start
TStart     == IsEv("start") /\ e < NExec /\ Start /\ nT' = Ev.n
                 /\ fails' = ToSet(Ev.fails) /\ reraise' = ToSet(Ev.reraise)
TFill      == IsEv("in_put") /\ Ev.i > 0 /\ t <= nT /\ Fill /\ Ev.i = t
TSentinel  == IsEv("in_put") /\ Ev.i = 0 /\ w <= NW /\ Sentinels
TTake      == IsEv("in_get") /\ Ev.w \in Workers /\ Take(Ev.w) /\ cur'[Ev.w] = Ev.i
TRun       == IsEv("run") /\ Ev.w \in Workers /\ Run(Ev.w) /\ cur[Ev.w] = Ev.i
TFinish    == IsEv("out_put") /\ Ev.w \in Workers /\ Finish(Ev.w) /\ cur[Ev.w] = Ev.i
                 /\ Ev.ok = (Ev.i \notin fails)
TCollect   == IsEv("out_get") /\ (nOut # nT /\ ~stop) /\ Collect /\ last'.idx = Ev.i /\ last'.ok = Ev.ok
\* the callback is part of the Collect step in the code: it must be for the item just collected
TCallback  == IsEv("callback") /\ pc[0] = "Collect" /\ last.ok /\ last.idx = Ev.i /\ Ev.val = last.val
                 /\ cbLog # <<>> /\ cbLog[Len(cbLog)] = <<Ev.i, Ev.val>> /\ UNCHANGED vars
TReturn    == IsEv("return") /\ pc[0] = "Start" /\ returned
                 /\ Len(Ev.out) = nT /\ (\A i \in 1..nT : Ev.out[i] = ordered[i])
                 /\ UNCHANGED vars
TRaise     == IsEv("raise") /\ pc[0] = "Start" /\ raised /\ Ev.i = last.idx /\ UNCHANGED vars
\* --- silent steps (loop exits, join, the final test): no event, bounded by the program counter
TSilent == Silent /\ \/ (t > nT /\ Fill)
                     \/ (~(nOut # nT /\ ~stop) /\ Collect)
                     \/ (w > NW /\ Sentinels)
                     \/ Join
                     \/ Raise

TNext == TStart \/ TFill \/ TSentinel \/ TTake \/ TRun \/ TFinish \/ TCollect \/ TCallback \/ TReturn \/ TRaise \/ TSilent
TSpec == TInit /\ [][TNext]_tvars

\* acceptance: furthest event index reached per trace (registers; -workers 1)
Reach == TLCSet(tid, IF TLCGet(tid) < l THEN l ELSE TLCGet(tid))
RegInit == \A i \in 1..Len(Traces) : TLCSet(i, 0)
ASSUME RegInit
Accepted == \A i \in 1..Len(Traces) :
   PrintT(<<"TRACE", Traces[i].id, TLCGet(i) - 1, Len(Traces[i].events)>>)
================================================================================
