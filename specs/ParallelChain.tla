------------------------------ MODULE ParallelChain ------------------------------
(***************************************************************************)
(* MDOParallelChain / MDOAdditiveChain (gemseo/core/chains): a composite   *)
(* whose members are executed, then linearized, by the pool of             *)
(* ParallelExec.tla in any admissible completion order, and whose data and *)
(* Jacobian are assembled from the members' results.  Members may define   *)
(* the SAME output name (outs is chosen in Init: every assignment of       *)
(* non-empty output sets).  The chain object is called NCalls times in a   *)
(* row, at a new point each time; a member may fail at a call.             *)
(*                                                                         *)
(* Sequential counterpart (the loop over the members in the order of the   *)
(* sequence, MDOChain on independent members): a name defined by several   *)
(* members takes the value, and the whole Jacobian, of the LAST member of  *)
(* the sequence defining it; a name to sum (additive chain) takes the sum  *)
(* over the members defining it; a failing member makes the call raise.    *)
(*                                                                         *)
(* Values are symbolic: <<k, m>> is "what member m computes at the point   *)
(* of call k"; the value of a name is the set of its contributions.        *)
(*                                                                         *)
(*   StartCall     a new call: the failing members are chosen              *)
(*   Start(m)      the pool takes the members in index order, at most      *)
(*                 NWorkers at a time                                      *)
(*   Complete(m)   member m completes (any order the pool allows); its     *)
(*                 result is written back to the member object held by the *)
(*                 chain unless it failed                                  *)
(*   Assemble      the round is over: the chain raises or assembles        *)
(* Two designs are refuted by TLC (non-vacuity of the clauses):            *)
(*   GatherAsCompleted = TRUE  outputs gathered by a callback at each      *)
(*                             completion instead of in sequence order     *)
(*   SwallowFailures = TRUE    a failed member is skipped and the chain    *)
(*                             assembles what the member objects hold      *)
(***************************************************************************)
EXTENDS Naturals, Sequences, FiniteSets, TLC
CONSTANTS NMembers, Names, NWorkers, NCalls, Additive, GatherAsCompleted, SwallowFailures,
          MaxFailing     \* at most that many members fail at one call
VARIABLES outs,      \* member -> the names it defines
          toSum,     \* the names the additive chain sums
          k,         \* index of the current call
          failing,   \* the members failing at the current call
          round,     \* "idle", "exec", "lin"
          pending, running, order,
          held,      \* member -> round -> the call whose result the member object holds (0: none)
          res,       \* round -> name -> set of contributions <<call, member>> (the chain's data / Jacobian)
          raised,    \* the current call raised
          hist       \* observation: one record per finished call
vars == <<outs, toSum, k, failing, round, pending, running, order, held, res, raised, hist>>
Members == 1..NMembers
Rounds == {"exec", "lin"}
Definers(n) == {m \in Members : n \in outs[m]}
Last(S) == CHOOSE m \in S : \A x \in S : x <= m
Empty == [n \in Names |-> {}]

\* ---- the sequential counterpart, declaratively
SeqValue(n, call) == IF n \in toSum THEN {<<call, m>> : m \in Definers(n)}
                     ELSE IF Definers(n) = {} THEN {} ELSE {<<call, Last(Definers(n))>>}

\* ---- assembling as coded: a loop over the members in the order of the sequence reading what the
\* member objects hold, then the sums of the additive chain
RECURSIVE Loop(_, _, _)
Loop(m, d, r) == IF m > NMembers THEN d
                 ELSE Loop(m + 1, [n \in Names |-> IF n \in outs[m] /\ held[m][r] # 0
                                                   THEN {<<held[m][r], m>>} ELSE d[n]], r)
Sums(d, r) == [n \in Names |-> IF n \in toSum
                               THEN {<<held[m][r], m>> : m \in {x \in Definers(n) : held[x][r] # 0}}
                               ELSE d[n]]

Init == /\ outs \in [Members -> (SUBSET Names) \ {{}}]
        /\ toSum \in (IF Additive THEN SUBSET Names ELSE {{}})
        /\ k = 0 /\ failing = {} /\ round = "idle"
        /\ pending = {} /\ running = {} /\ order = [r \in Rounds |-> <<>>]
        /\ held = [m \in Members |-> [r \in Rounds |-> 0]]
        /\ res = [r \in Rounds |-> Empty]
        /\ raised = FALSE /\ hist = <<>>

Record == [failing |-> failing, eorder |-> order["exec"], lorder |-> order["lin"], raised |-> raised,
           data |-> res["exec"], jac |-> res["lin"]]

StartCall == /\ round = "idle" /\ k < NCalls
             /\ k' = k + 1
             /\ failing' \in {S \in SUBSET Members : Cardinality(S) <= MaxFailing}
             /\ round' = "exec" /\ pending' = Members /\ running' = {}
             /\ order' = [r \in Rounds |-> <<>>] /\ raised' = FALSE
             /\ res' = [r \in Rounds |-> Empty]
             /\ hist' = (IF k = 0 THEN hist ELSE Append(hist, Record))
             /\ UNCHANGED <<outs, toSum, held>>
Start(m) == /\ round \in Rounds /\ m \in pending /\ m \notin running
            /\ Cardinality(running) < NWorkers
            /\ \A j \in pending \ running : m <= j
            /\ running' = running \cup {m}
            /\ UNCHANGED <<outs, toSum, k, failing, round, pending, order, held, res, raised, hist>>
Complete(m) ==
  /\ round \in Rounds /\ m \in running
  /\ running' = running \ {m} /\ pending' = pending \ {m}
  /\ order' = [order EXCEPT ![round] = Append(@, m)]
  /\ LET ok == ~(round = "exec" /\ m \in failing) IN
       /\ held' = (IF ok THEN [held EXCEPT ![m][round] = k] ELSE held)
       /\ res' = (IF GatherAsCompleted /\ ok
                  THEN [res EXCEPT ![round] = [n \in Names |-> IF n \in outs[m] THEN {<<k, m>>} ELSE @[n]]]
                  ELSE res)
  /\ UNCHANGED <<outs, toSum, k, failing, round, raised, hist>>
Assemble ==
  /\ round \in Rounds /\ pending = {}
  /\ IF round = "exec" /\ failing # {} /\ ~SwallowFailures
     THEN /\ raised' = TRUE /\ round' = "idle" /\ UNCHANGED <<res, pending>>
     ELSE /\ res' = [res EXCEPT ![round] = Sums(IF GatherAsCompleted THEN @ ELSE Loop(1, Empty, round), round)]
          /\ raised' = raised
          /\ IF round = "exec" THEN round' = "lin" /\ pending' = Members
                               ELSE round' = "idle" /\ pending' = pending
  /\ UNCHANGED <<outs, toSum, k, failing, running, order, held, hist>>
Finish == /\ round = "idle" /\ k = NCalls /\ Len(hist) < NCalls
          /\ hist' = Append(hist, Record)
          /\ UNCHANGED <<outs, toSum, k, failing, round, pending, running, order, held, res, raised>>
Next == StartCall \/ (\E m \in Members : Start(m) \/ Complete(m)) \/ Assemble \/ Finish
Spec == Init /\ [][Next]_vars /\ WF_vars(Next)

Done == round = "idle" /\ k = NCalls /\ Len(hist) = NCalls
\* ---- C13 clauses: the parallel chain produces the data and the Jacobian of its sequential counterpart
\* whatever the completion order ...
SameAsSequential ==
   /\ (round = "lin" /\ ~raised) => \A n \in Names : res["exec"][n] = SeqValue(n, k)
   /\ (round = "idle" /\ k > 0 /\ ~raised) => \A r \in Rounds : \A n \in Names : res[r][n] = SeqValue(n, k)
\* ... a failing member makes the call raise, as the sequential chain does: no data of an earlier call
FailurePropagates == (round # "exec" /\ k > 0) => (raised <=> failing # {})
NoStaleData == \A r \in Rounds : \A n \in Names : \A c \in res[r][n] : c[1] = k
Live == <>Done
View == <<outs, toSum, k, failing, round, pending, running, held, res, raised>>
Cases == Done => PrintT(<<"CHAIN", outs, toSum, hist>>)
=============================================================================
