--------------------------------- MODULE MDA ---------------------------------
(***************************************************************************)
(* C06 - every MDA algorithm converges to the multidisciplinary fixed      *)
(* point (exact-arithmetic slice, DESIGN.md 3.3 / 4 C06).                  *)
(*                                                                         *)
(* An INSTANCE is a coupled LINEAR system  y = a(x) + B y  of nd = 2..3    *)
(* disciplines; discipline i produces the coupling variable y_i of size    *)
(* sz[i] in 1..2 and reads y_j iff the block B_ij is not zero (a non-zero  *)
(* diagonal block is a SELF-COUPLED discipline); a(x) = c + xc * x for the *)
(* integer input x of the run.  Two families:                              *)
(*   "nil": B integer and NILPOTENT although the discipline graph has      *)
(*          cycles (needs a coupling of size 2);                           *)
(*   "con": B = Nm / 2^db dyadic with  ||B||_inf <= 1/2  (CONTRACTIVE).    *)
(* Coupling graphs: one strongly connected group, a group with a weakly    *)
(* coupled head or tail, two groups in sequence, self-coupled disciplines  *)
(* (alone or inside a group) - whatever the block pattern of B says, as    *)
(* long as the groups are totally ordered (no parallel tasks).             *)
(* Values are canonical dyadic scalars <<m, e>> (module Dyadic); a sweep   *)
(* of the algorithms below is exact in that representation, and it is      *)
(* exact in IEEE doubles too, which is what lets MDATrace demand that the  *)
(* recorded iterates of the real MDAJacobi / MDAGaussSeidel / MDAChain     *)
(* EQUAL the iterates of this module.                                      *)
(*                                                                         *)
(* An MDA object is a PROGRAM of stages (aux.prog):                        *)
(*   alg "J" / "GS"   one stage: all the disciplines in listing order;     *)
(*   alg "CJ" / "CGS" MDAChain with inner MDAJacobi / MDAGaussSeidel: one  *)
(*        stage per strongly connected group in dependency order; a group  *)
(*        of several disciplines or a self-coupled discipline is an inner  *)
(*        MDA (disciplines in listing order), any other discipline is      *)
(*        executed once;                                                   *)
(*   alg "SJ" / "SGS" MDASequential of two fixed-point MDAs over all the   *)
(*        disciplines: a first stage cfg.a1 with ITS OWN tolerance 2^-t1   *)
(*        and max_mda_iter m1 (neither is cascaded by the generic class),  *)
(*        then MDAJacobi / MDAGaussSeidel with the tolerance and           *)
(*        max_mda_iter of the sequence.  The second MDA starts from what   *)
(*        the first one returned; it is SKIPPED only when the normed       *)
(*        residual of the first one is below the tolerance OF THE SEQUENCE *)
(*        (sequential_mda.py: mda.normed_residual < self.settings.         *)
(*        tolerance) - a first stage that merely met its own looser        *)
(*        tolerance hands over.                                            *)
(* Each MDA stage iterates on its RESOLVED variables (base_mda_solver.py,  *)
(* jacobi.py, gauss_seidel.py, coupling_structure.py): the strong          *)
(* couplings of its disciplines; for Jacobi all the couplings when some    *)
(* discipline of the stage is not strongly coupled; for Gauss-Seidel,      *)
(* under Rules = "repaired", also every coupling that a discipline reads   *)
(* before its producer has run in the sweep.  Only they enter the          *)
(* residual, its scaling, and the relaxation.                              *)
(*                                                                         *)
(* Actions, at the granularity of one discipline execution:                *)
(*   Exec      one discipline runs (Jacobi: on the data of the sweep's     *)
(*             start; Gauss-Seidel: on the latest data), listing order;    *)
(*   Single    the discipline of a stage that needs no MDA runs once;      *)
(*   EndPre    Gauss-Seidel's initial sweep (no residual, no counter);     *)
(*   EndSweep  residual = data after - data before, counter + 1, the       *)
(*             scaling reference is fixed by the first residual ever       *)
(*             computed by the (inner) MDA object - it survives a second   *)
(*             execution;                                                  *)
(*   Stop      normed residual <= tolerance, or counter >= max_mda_iter:   *)
(*             next stage, or done;                                        *)
(*   Continue  x_{k+1} = w G(x_k) + (1 - w) G(x_{k-1})  (the library's     *)
(*             over-relaxation; G(x_0) the first time), no acceleration;   *)
(*   NewRun    a second execution with another input, with or without      *)
(*             warm start (of the input couplings the code warm-starts).   *)
(* The normed residual is compared SQUARED (BigNat), for the scalings      *)
(* no_scaling, initial_residual_norm, n_coupling_variables,                *)
(* initial_subresidual_norm, initial_residual_component (a sub-residual /  *)
(* component of the FIRST residual that is exactly zero keeps the scale 1: *)
(* it stays monitored, unscaled - RefSq); at exact                         *)
(* equality of two non-zero sides both Stop and Continue are allowed (a    *)
(* double cannot be trusted to decide an equality after a square root and  *)
(* a division); a residual that is exactly zero is <= any tolerance.       *)
(*                                                                         *)
(* Properties checked by TLC on every behaviour:                           *)
(*   NilExact    nilpotent family, one-stage programs: the data equal the  *)
(*               exact integer fixed point after N sweeps (2N with         *)
(*               relaxation), for every listing order and coupling graph;  *)
(*   NilStop     ... and an execution whose stages all stopped by an       *)
(*               absolute tolerance < 1 returns it (chains included);      *)
(*   APriori     contractive family, one group: ||y_s - y*|| <=            *)
(*               q^p(s) ||y_0 - y*||;                                      *)
(*   APost       one-stage programs, any coupling graph:                   *)
(*               ||y - y*||_inf <= Amp * ||residual||_inf at every test,   *)
(*               hence at Stop ||y - y*|| <= Amp * tol * scale - the bound *)
(*               handed to the conformance check.  With Rules = "asread"   *)
(*               TLC REFUTES it (and NilStop): a Gauss-Seidel whose weakly *)
(*               coupled disciplines are listed before their producers     *)
(*               stops on the strong couplings and returns outdated values *)
(*               (finding D0601);                                          *)
(*   ChainEqualsMonolithic  no stage of a chain reads what a later stage   *)
(*               produces and every group has a unique solution: solving   *)
(*               group after group gives the solution of the whole system; *)
(*   SeqHandOver a sequence that ends before its last MDA ends on a        *)
(*               residual within the tolerance of the SEQUENCE;            *)
(*   Budget      the counter never exceeds max(1, max_mda_iter).           *)
(* Exact(sys) is the rational solution <<numerators, det>> by the adjugate.*)
(***************************************************************************)
EXTENDS Integers, Sequences, FiniteSets, TLC, Dyadic
\* integer matrices (shared with C07); LOCAL: its names are not re-exported to MDATrace / MDAReport
LOCAL INSTANCE Mat

CONSTANTS Fams,      \* subset of {"nil", "con"}
          Profiles,  \* size profiles as decimal digits: 22 = sizes <<2, 2>>, 121 = <<1, 2, 1>>
          Seeds,     \* seeds of the instance generator
          Algs,      \* subset of {"J", "GS", "CJ", "CGS", "SJ", "SGS"}
          Ws,        \* relaxation factors as w / 2: subset of {1, 2, 3}
          Tols,      \* tolerance exponents t (tolerance = 2^-t); 99 stands for tolerance 0 (cfg.t = -1)
          MaxIts,    \* values of max_mda_iter
          Scals,     \* subset of {"no", "init", "ncpl", "sub", "comp"}
          Warm,      \* subset of BOOLEAN
          NRuns,     \* number of successive executions of the same MDA object (1 or 2)
          Rules,     \* "asread": Gauss-Seidel resolves the strong couplings only, as gauss_seidel.py did before
                     \*   fix faa2efe (kept as a refutation run only);
                     \* "repaired": also the couplings read before they are produced - the code today
          SelMod, SelRes,   \* configurations explored: (hash of the configuration) % SelMod \in SelRes
          Emit       \* print one CASE record per instance

VARIABLES inst,   \* the system (constant)
          cfg,    \* the settings of the MDA object (constant)
          run,    \* index of the current execution, 1..NRuns
          stage,  \* index of the current stage of the program
          pc,     \* "pre" | "sweep" | "test" | "single" | "done"
          pos,    \* number of disciplines executed in the current sweep
          k,      \* BaseMDA._current_iter of the current stage: residuals computed in this execution
          y,      \* the coupling values in the local data
          bef,    \* the local data copied before the sweep
          gq,     \* OverRelaxation's queue: << >> or <<previous G(x)>>
          r0,     \* per stage: << >> or <<the first residual ever computed>> (the scaling data)
          res,    \* the last residual (zero on the components that are not resolved)
          log,    \* per finished MDA stage of this execution: <<k, converged>>
          aux     \* what the actions and properties need of the instance, computed once (constant)
vars == <<inst, cfg, run, stage, pc, pos, k, y, bef, gq, r0, res, log, aux>>

----------------------------------------------------------------------------
(* layout                                                                   *)
ND(I) == Len(I.sz)
RECURSIVE OffTo(_, _)
OffTo(sz, i) == IF i = 0 THEN 0 ELSE sz[i] + OffTo(sz, i - 1)
Dim(I) == OffTo(I.sz, ND(I))
Comps(I, i) == (OffTo(I.sz, i - 1) + 1)..OffTo(I.sz, i)
CompSeq(I, i) == [j \in 1..I.sz[i] |-> OffTo(I.sz, i - 1) + j]
DiscOf(I, c) == CHOOSE i \in 1..ND(I) : c \in Comps(I, i)
AllIdx(I) == [j \in 1..Dim(I) |-> j]
Discs(I) == 1..ND(I)
SeqOfSet(S) == SelectSeq([j \in 1..9 |-> j], LAMBDA j : j \in S)      \* ascending

BlockNZ(I, i, j) == \E r \in Comps(I, i) : \E c \in Comps(I, j) : I.B[r][c] # 0
Reads(I, i) == {j \in Discs(I) : BlockNZ(I, i, j)}
\* components read by discipline i, ascending
ReadSeq(I, i) == SelectSeq(AllIdx(I), LAMBDA c : DiscOf(I, c) \in Reads(I, i))

\* ---- the coupling graph (dependency_graph.py, coupling_structure.py)
Edge(I, i, j) == i # j /\ BlockNZ(I, j, i)            \* j reads an output of i
RECURSIVE ReachN(_, _, _, _)
ReachN(I, i, j, n) == i = j \/ (n > 0 /\ \E m \in Discs(I) : Edge(I, i, m) /\ ReachN(I, m, j, n - 1))
Reach(I, i, j) == ReachN(I, i, j, ND(I))
Grp(I, i) == {j \in Discs(I) : Reach(I, i, j) /\ Reach(I, j, i)}
Groups(I) == {Grp(I, i) : i \in Discs(I)}
SelfC(I, i) == BlockNZ(I, i, i)
IsMDAGrp(I, g) == Cardinality(g) > 1 \/ \E i \in g : SelfC(I, i)
Before(I, g, h) == g # h /\ \E i \in g : \E j \in h : Reach(I, i, j)
\* the groups are totally ordered: the execution sequence has no parallel tasks
LinearSchedule(I) == \A g, h \in Groups(I) : g = h \/ Before(I, g, h) \/ Before(I, h, g)
GrpRank(I, g) == Cardinality({h \in Groups(I) : Before(I, h, g)})
StageGroup(I, s) == CHOOSE g \in Groups(I) : GrpRank(I, g) = s - 1
HasMDA(I) == \E g \in Groups(I) : IsMDAGrp(I, g)
OneGroup(I) == Cardinality(Groups(I)) = 1

\* the variables an MDA made of the disciplines D iterates on (D: all the disciplines, or one group)
StrongIn(I, D) == UNION {{j \in h : \E i \in h : j \in Reads(I, i)} : h \in {Grp(I, i) : i \in {d \in D : IsMDAGrp(I, Grp(I, d))}}}
AllCplIn(I, D) == {j \in D : \E i \in D : j \in Reads(I, i)}
Perms(n) == IF n = 2 THEN {<<1, 2>>, <<2, 1>>}
            ELSE {<<1, 2, 3>>, <<1, 3, 2>>, <<2, 1, 3>>, <<2, 3, 1>>, <<3, 1, 2>>, <<3, 2, 1>>}
PosIn(o, i) == CHOOSE p \in 1..Len(o) : o[p] = i

\* the couplings a Gauss-Seidel sweep in the order o reads before the discipline computing them has run:
\* their value is one sweep late
Delayed(I, D, o) == {j \in D : \E i \in D : j \in Reads(I, i) /\ PosIn(o, i) <= PosIn(o, j)}
ResolvedIn(I, D, inner, o) ==
  IF inner = "J"
  THEN (IF \A i \in D : IsMDAGrp(I, Grp(I, i)) THEN StrongIn(I, D) ELSE AllCplIn(I, D))
  ELSE (IF Rules = "repaired" THEN StrongIn(I, D) \cup Delayed(I, D, o) ELSE StrongIn(I, D))
\* listing orders in which a one-stage Gauss-Seidel has a delayed coupling that is not a strong one
DelayedWeakOrders(I) == {o \in Perms(ND(I)) : Delayed(I, Discs(I), o) \ StrongIn(I, Discs(I)) # {}}

DB(I) == 2 ^ I.db
RECURSIVE SumI(_, _)
SumI(f, n) == IF n = 0 THEN 0 ELSE f[n] + SumI(f, n - 1)
RowL1(I, r) == SumI([c \in 1..Dim(I) |-> AbsI(I.B[r][c])], Dim(I))
RECURSIVE MaxTo(_, _)
MaxTo(f, n) == IF n = 0 THEN 0 ELSE MaxI(f[n], MaxTo(f, n - 1))
QN(I) == MaxTo([r \in 1..Dim(I) |-> RowL1(I, r)], Dim(I))       \* ||B||_inf = QN / DB

ValidInst(I) ==
  /\ I.fam \in {"nil", "con"}
  /\ ND(I) \in 2..3
  /\ \A i \in Discs(I) : I.sz[i] \in 1..2
  /\ IsMat(I.B, Dim(I), Dim(I))
  /\ Len(I.c) = Dim(I) /\ Len(I.xc) = Dim(I) /\ Len(I.y0) = Dim(I)
  /\ \A r \in 1..Dim(I) : I.c[r] \in -4..4 /\ I.xc[r] \in -2..2 /\ I.y0[r] \in -4..4
  /\ Len(I.xs) = 2 /\ \A n \in 1..2 : I.xs[n] \in -3..3
  /\ HasMDA(I)
  /\ LinearSchedule(I)
  /\ (IF I.fam = "nil"
      THEN /\ I.db = 0
           /\ \A r, c \in 1..Dim(I) : I.B[r][c] \in -2..2
           /\ IsZero(MPow(I.B, Dim(I)))
      ELSE /\ I.db \in 2..3
           /\ 2 * QN(I) <= DB(I))

Inner(C) == IF C.alg \in {"J", "CJ", "SJ"} THEN "J" ELSE "GS"      \* the (last) algorithm that iterates
IsChain(C) == C.alg \in {"CJ", "CGS"}
IsSeq(C) == C.alg \in {"SJ", "SGS"}
NStages(I, C) == IF IsChain(C) THEN Cardinality(Groups(I)) ELSE 1
NMDAStages(I, C) == IF IsChain(C) THEN Cardinality({g \in Groups(I) : IsMDAGrp(I, g)}) ELSE 1

\* the exactness envelope: a Jacobi sweep adds db bits to the denominators, a Gauss-Seidel sweep up to
\* nd * db (each discipline reads what the previous one just produced), a relaxation factor k/2 one
\* more, every MDA stage of a chain starts from what the previous one left; numerators stay below
\* 2^31 while the exponent is <= ExpLimit (|y| < 32 on both families)
ExpLimit(C) == IF C.w = 3 THEN 18 ELSE 22
SweepBits(I, C, a) == (IF a = "GS" THEN ND(I) ELSE 1) * I.db + (IF C.w = 2 THEN 0 ELSE 1)
Bits(I, C) == SweepBits(I, C, Inner(C)) * (C.maxit + 1) * (IF C.warm THEN C.runs ELSE 1) * NMDAStages(I, C)
              + (IF IsChain(C) THEN ND(I) * I.db ELSE 0)
              + (IF IsSeq(C) THEN SweepBits(I, C, C.a1) * (C.m1 + 1) ELSE 0)

ValidCfg(I, C) ==
  /\ C.alg \in {"J", "GS", "CJ", "CGS", "SJ", "SGS"}
  /\ C.a1 \in {"J", "GS"} /\ C.t1 \in -1..20 /\ C.m1 \in 1..8
  \* a sequence: one execution, every MDA computes at least one residual
  /\ (IsSeq(C) => C.runs = 1 /\ ~C.warm /\ C.maxit >= 1)
  /\ C.w \in 1..3
  /\ C.ord \in Perms(ND(I))
  /\ C.t \in -1..20
  /\ C.maxit \in 0..8
  /\ C.scal \in {"no", "init", "ncpl", "sub", "comp"}
  /\ C.warm \in BOOLEAN
  /\ C.runs \in 1..2
  /\ Bits(I, C) <= ExpLimit(C)

----------------------------------------------------------------------------
(* the instance generator: (family, profile, seed) -> instance              *)
Rnd(s, i, j, m) == ((((s + 3) * (i * 7 + 11) * (j * 13 + 17)) + s * s * 5 + i * 29 + j * 31 + (s \div 7)) % 1013) % m

\* halve a row (towards 0) until its L1 norm is <= lim
RECURSIVE FitRow(_, _)
FitRow(row, lim) ==
  IF SumI([c \in 1..Len(row) |-> AbsI(row[c])], Len(row)) <= lim THEN row
  ELSE FitRow([c \in 1..Len(row) |-> IF row[c] < 0 THEN 0 - ((0 - row[c]) \div 2) ELSE row[c] \div 2], lim)

\* a permutation-like ranking of the N components: distinct ranks from the seed
Rank(s, n, c) == ((c * (2 * (s % 3) + 1) + s) % n) * 8 + c

\* which blocks may be non-zero: the shape of the coupling graph, from the seed
\*   0..3 every off-diagonal block (one group), diagonal blocks too when s % 5 = 0
\*   4 "tail"  nobody reads the last discipline         5 "head"  the first discipline reads nobody
\*   6 "seq"   a group, then a self-coupled discipline  7 "selfhead" a self-coupled discipline, then a group
GShape(s) == (s \div 2) % 8
Allowed(s, nd, i, j) ==
  LET sh == GShape(s)
  IN  CASE sh = 4 -> (j # nd /\ i # j) \/ (nd = 2 /\ i = 1 /\ j = 1)
        [] sh = 5 -> (i # 1 /\ i # j) \/ (nd = 2 /\ i = 2 /\ j = 2)
        [] sh = 6 -> (i < nd /\ j < nd /\ (i # j \/ nd = 2)) \/ (i = nd)
        [] sh = 7 -> (i = 1 /\ j = 1) \/ (i > 1 /\ (i # j \/ nd = 2))
        [] OTHER -> i # j \/ s % 5 = 0

GenB(fam, sz, s) ==
  LET n  == OffTo(sz, Len(sz))
      nd == Len(sz)
      dof(c) == CHOOSE i \in 1..nd : c \in (OffTo(sz, i - 1) + 1)..OffTo(sz, i)
  IN  IF fam = "nil"
      THEN Mk(n, n, LAMBDA r, c :
             IF Rank(s, n, r) < Rank(s, n, c) /\ Allowed(s, nd, dof(r), dof(c))
             THEN (CASE Rnd(s, r, c, 6) = 0 -> 0
                     [] Rnd(s, r, c, 6) = 1 -> -1
                     [] Rnd(s, r, c, 6) = 2 -> 2
                     [] Rnd(s, r, c, 6) = 3 -> 0
                     [] OTHER -> 1)
             ELSE 0)
      ELSE LET db  == 2 + (s % 2)
               raw == Mk(n, n, LAMBDA r, c :
                        IF Allowed(s, nd, dof(r), dof(c))
                        THEN (IF Rnd(s, r, c, 4) = 0 THEN 0 ELSE Rnd(s, c, r, 2 * 2 ^ (db - 1) + 1) - 2 ^ (db - 1))
                        ELSE 0)
           IN  TLCEval([r \in 1..n |-> FitRow(raw[r], 2 ^ (db - 1))])

\* QUIET instances (seeds >= 100): the input x and the constant term reach ONE discipline only (the
\* driver), every other discipline is a pure function of the couplings, and the start is y0 = 0 - the ring /
\* chain pattern of a design variable entering one discipline.  The first execution of a non-driver
\* reproduces its start value although the system is not converged: the first residual has sub-residuals
\* and components that are EXACTLY ZERO (the scalings initial_subresidual_norm / initial_residual_component
\* then keep the scale 1 for them, see RefSq), and the change propagates one discipline per sweep.
Quiet(s) == s >= 100
Driver(s, nd) == (s % nd) + 1
Gen(fam, sz, s) ==
  LET n == OffTo(sz, Len(sz))
      nd == Len(sz)
      drv(r) == ~Quiet(s) \/ r \in (OffTo(sz, Driver(s, nd) - 1) + 1)..OffTo(sz, Driver(s, nd))
      c0(r) == Rnd(s, r, 41, 7) - 3
  IN  [fam |-> fam, sz |-> sz, db |-> IF fam = "nil" THEN 0 ELSE 2 + (s % 2),
       B  |-> GenB(fam, sz, s),
       c  |-> [r \in 1..n |-> IF drv(r) THEN (IF Quiet(s) /\ c0(r) = 0 THEN 2 ELSE c0(r)) ELSE 0],
       xc |-> [r \in 1..n |-> IF drv(r) THEN Rnd(s, r, 43, 5) - 2 ELSE 0],
       xs |-> <<Rnd(s, 1, 47, 7) - 3, Rnd(s, 2, 53, 7) - 3>>,
       y0 |-> [r \in 1..n |-> IF s % 3 = 0 /\ ~Quiet(s) THEN Rnd(s, r, 59, 5) - 2 ELSE 0]]

----------------------------------------------------------------------------
(* the disciplines and the exact solution                                   *)
AVec(I, n) == [r \in 1..Dim(I) |-> I.c[r] + I.xc[r] * I.xs[n]]         \* a(x) of run n

\* component r of the output of its discipline evaluated on the data src
OutComp(I, n, r, src) ==
  DAdd(DInt(AVec(I, n)[r]),
       DShr(DSumTo([c \in 1..Dim(I) |-> IF I.B[r][c] = 0 THEN DZero ELSE DScale(I.B[r][c], src[c])], Dim(I)),
            I.db))

\* (DB I - Nm) y = DB a :  y = Adj(A) (DB a) / Det(A)
AMat(I) == MSub(MScale(DB(I), Ident(Dim(I))), I.B)
ExactDen(I) == Det(AMat(I))
ExNum(I, A, n) == LET a == AVec(I, n)
                  IN  TLCEval([r \in 1..Dim(I) |-> SumI([c \in 1..Dim(I) |-> A[r][c] * DB(I) * a[c]], Dim(I))])
ExAux(I) == LET A == Adj(AMat(I)) IN [den |-> ExactDen(I), ex |-> <<ExNum(I, A, 1), ExNum(I, A, 2)>>]

\* |v - p/d| * d * 2^e  as a BigNat, for the dyadic v = <<m, e'>>, at exponent e >= e'
ErrAt(v, p, d, e) == SBSub(SBMulB(SB(DAt(v, e)), BN(d)), SBMulB(SB(p), BShl(BN(1), e)))[2]
RECURSIVE BMaxTo(_, _)
BMaxTo(f, n) == IF n = 0 THEN << >> ELSE LET m == BMaxTo(f, n - 1) IN IF BLeq(f[n], m) THEN m ELSE f[n]
\* ||v - Exact||_inf * d * 2^E  with E = VExp(v); p: the numerators, d: the denominator of Exact
ErrInf(p, d, v) == LET E == VExp(v)
                   IN  BMaxTo([c \in 1..Len(v) |-> ErrAt(v[c], p[c], d, E)], Len(v))

IsExact(p, d, v) == \A c \in 1..Len(v) : v[c][2] = 0 /\ v[c][1] * d = p[c]

\* ---- the same solution group after group (what a chain of MDAs converges to) ----------------
\* A stage reads nothing that a later stage produces and the system of every group has a unique
\* solution: solving the groups in the order of the program, each with the values of the previous
\* ones, then gives the solution of the whole system (the equations are the same, and unique).
GroupMat(I, g) == LET cs == SelectSeq(AllIdx(I), LAMBDA c : DiscOf(I, c) \in g)
                  IN  Mk(Len(cs), Len(cs), LAMBDA r, c : (IF r = c THEN DB(I) ELSE 0) - I.B[cs[r]][cs[c]])
ChainEqualsMonolithicOn(I) ==
  LET ng == Cardinality(Groups(I))
  IN  /\ \A s, t \in 1..ng : s < t => \A i \in StageGroup(I, s) : \A j \in StageGroup(I, t) : j \notin Reads(I, i)
      /\ \A s \in 1..ng : Det(GroupMat(I, StageGroup(I, s))) # 0
      /\ UNION {StageGroup(I, s) : s \in 1..ng} = Discs(I)

\* ---- amplification  ||y - y*||_inf <= Amp * ||residual||_inf,  Amp = <<num, den>>  (one group)
LMat(I, o) == Mk(Dim(I), Dim(I), LAMBDA r, c :
                IF PosIn(o, DiscOf(I, c)) < PosIn(o, DiscOf(I, r)) THEN I.B[r][c] ELSE 0)
InfNorm(M) == MaxTo([r \in 1..Len(M) |-> SumI([c \in 1..Len(M[r]) |-> AbsI(M[r][c])], Len(M[r]))], Len(M))
\* sum_{j <= n} M^j = (I - M)^-1 for a nilpotent M of index <= n + 1
RECURSIVE GeomTo(_, _)
GeomTo(M, n) == IF n = 0 THEN Ident(Len(M)) ELSE MAdd(Ident(Len(M)), MMul(M, GeomTo(M, n - 1)))
Amp(I, alg, o) ==
  IF I.fam = "con" THEN <<QN(I), DB(I) - QN(I)>>
  ELSE LET n  == Dim(I)
           Id == Ident(n)
           IB == GeomTo(I.B, n - 1)                             \* (I - B)^-1
       IN  IF alg = "J" THEN <<InfNorm(MMul(I.B, IB)), 1>>
           ELSE LET L == LMat(I, o)
                    U == MSub(I.B, L)
                    IL == GeomTo(L, n - 1)                      \* L is strictly block-triangular
                IN  <<InfNorm(MMul(MMul(MMul(IL, U), IB), MSub(Id, L))), 1>>

\* any coupling graph, any one-stage algorithm whose resolved variables include every value that is
\* one sweep late: the returned z satisfies z = G(z) + delta, ||delta|| <= ||B|| ||residual||
AmpAny(I) == IF I.fam = "con" THEN <<QN(I), DB(I) - QN(I)>>
             ELSE <<InfNorm(GeomTo(I.B, Dim(I) - 1)) * QN(I), 1>>

----------------------------------------------------------------------------
(* the program of an MDA object                                             *)
SetComps(I, S) == SelectSeq(AllIdx(I), LAMBDA c : DiscOf(I, c) \in S)
\* a: the algorithm of the stage, t / m: its tolerance exponent and max_mda_iter
StageOfAlg(I, C, D, a, t, m) ==
  LET mda == ~IsChain(C) \/ IsMDAGrp(I, D)
      rv  == IF mda THEN ResolvedIn(I, D, a, C.ord) ELSE {}
  IN  [ds   |-> SelectSeq(C.ord, LAMBDA i : i \in D),
       mda  |-> mda, inner |-> a, t |-> t, maxit |-> m,
       ridx |-> SetComps(I, rv),                                      \* resolved components
       rvar |-> [j \in 1..Cardinality(rv) |-> CompSeq(I, SeqOfSet(rv)[j])]]   \* per resolved variable
StageOf(I, C, D) == StageOfAlg(I, C, D, Inner(C), C.t, C.maxit)
ProgOf(I, C) == IF IsChain(C) THEN [s \in 1..Cardinality(Groups(I)) |-> StageOf(I, C, StageGroup(I, s))]
                ELSE IF IsSeq(C) THEN <<StageOfAlg(I, C, Discs(I), C.a1, C.t1, C.m1), StageOf(I, C, Discs(I))>>
                ELSE <<StageOf(I, C, Discs(I))>>

----------------------------------------------------------------------------
(* the normed residual against the tolerance: "le" | "eq" | "gt"            *)
Worst(S) == IF "gt" \in S THEN "gt" ELSE IF "eq" \in S THEN "eq" ELSE "le"
Verdict(c) == IF c < 0 THEN "le" ELSE IF c = 0 THEN "eq" ELSE "gt"
One == <<BN(1), 0>>
RefSq(ref, idx) == LET s == SumSq(ref, idx) IN IF Len(s[1]) = 0 THEN One ELSE s
\* r: the residual, ref: the first residual, st: the stage (resolved components and variables),
\* t: the tolerance exponent (-1: tolerance 0)
SmallT(C, t, r, ref, st) ==
  LET P == SumSq(r, st.ridx)
  IN  \* a residual that vanishes exactly has the normed residual 0.0 <= tolerance in doubles too
      IF Len(P[1]) = 0 THEN "le"
      ELSE IF t = -1 THEN "gt"
      ELSE CASE C.scal = "no"   -> Verdict(CmpSq(P, t, One, 1))
             [] C.scal = "ncpl" -> Verdict(CmpSq(P, t, One, Len(st.ridx)))
             [] C.scal = "init" -> Verdict(CmpSq(P, t, RefSq(ref, st.ridx), 1))
             [] C.scal = "sub"  ->
                  Worst({Verdict(CmpSq(SumSq(r, st.rvar[j]), t, RefSq(ref, st.rvar[j]), 1)) : j \in 1..Len(st.rvar)})
             [] C.scal = "comp" ->
                  Worst({Verdict(CmpSq(SumSq(r, <<st.ridx[j]>>), t, RefSq(ref, <<st.ridx[j]>>), 1)) : j \in 1..Len(st.ridx)})

Small(C, r, ref, st) == SmallT(C, st.t, r, ref, st)

----------------------------------------------------------------------------
DVec(v) == [c \in 1..Len(v) |-> DInt(v[c])]
AlgNo(a) == CASE a = "J" -> 0 [] a = "GS" -> 1 [] a = "CJ" -> 2 [] a = "CGS" -> 3 [] a = "SJ" -> 4 [] OTHER -> 5
Sel(I, C) == (Len(I.sz) * 7 + I.sz[1] * 3 + I.xs[1] + I.c[1] * 5 + PosIn(C.ord, 1) * 11 + C.w * 13 + C.t * 17
              + C.maxit * 19 + AlgNo(C.alg) * 23 + (IF C.warm THEN 29 ELSE 0) + (IF C.a1 = "GS" THEN 37 ELSE 0) + C.t1 * 41
              + (CASE C.scal = "no" -> 1 [] C.scal = "init" -> 2 [] C.scal = "ncpl" -> 3
                   [] C.scal = "sub" -> 4 [] OTHER -> 5) * 31 + 1000) % SelMod

ProfSz(p) == IF p < 100 THEN <<p \div 10, p % 10>> ELSE <<p \div 100, (p \div 10) % 10, p % 10>>
Instances == TLCEval({I \in {Gen(f, ProfSz(p), s) : f \in Fams, p \in Profiles, s \in Seeds} : ValidInst(I)})

\* the instances handed to the conformance check (spec -> code), printed once
\* together with the largest max_mda_iter inside the exactness envelope per algorithm, relaxation
\* factor and (cold, warm-started second execution); -1: none
CfgOf(a, w, m, warm) == [alg |-> a, w |-> w, ord |-> <<1, 2>>, t |-> 1, maxit |-> m, scal |-> "no",
                         warm |-> warm, runs |-> IF warm THEN 2 ELSE 1,
                         \* a sequence: a Gauss-Seidel first stage with as many iterations as the second
                         a1 |-> "GS", t1 |-> 1, m1 |-> MaxI(1, m)]
MaxMaxIt(I, a, w, warm) ==
  LET ok == {m \in 0..8 : Bits(I, CfgOf(a, w, m, warm)) <= ExpLimit(CfgOf(a, w, m, warm))}
  IN  IF ok = {} THEN -1 ELSE CHOOSE m \in ok : \A n \in ok : n <= m
Envelope(I) == [a \in {"J", "GS", "CJ", "CGS", "SJ", "SGS"} |-> [w \in 1..3 |-> <<MaxMaxIt(I, a, w, FALSE), MaxMaxIt(I, a, w, TRUE)>>]]

\* ---- stalled starts: the first residual of a one-stage object (Jacobi: the first sweep minus y0;
\* Gauss-Seidel in the order o: the second sweep minus the first) vanishes EXACTLY on some resolved variable
\* but not on all of them - the MDA is not converged, and the reference of the per-variable / per-component
\* scalings is zero there
JSweepFrom(I, n, src) == TLCEval([c \in 1..Dim(I) |-> OutComp(I, n, c, src)])
RECURSIVE GSSweepTo(_, _, _, _, _)
GSSweepTo(I, n, o, src, j) ==
  IF j = 0 THEN src
  ELSE LET prev == TLCEval(GSSweepTo(I, n, o, src, j - 1))
       IN  TLCEval([c \in 1..Dim(I) |-> IF c \in Comps(I, o[j]) THEN OutComp(I, n, c, prev) ELSE prev[c]])
FirstRes(I, a, o) ==
  LET s == DVec(I.y0)
  IN  IF a = "J" THEN LET z == JSweepFrom(I, 1, s) IN [c \in 1..Dim(I) |-> DSub(z[c], s[c])]
      ELSE LET z == GSSweepTo(I, 1, o, s, ND(I))
               u == GSSweepTo(I, 1, o, z, ND(I))
           IN  [c \in 1..Dim(I) |-> DSub(u[c], z[c])]
\* r: a residual, vs: the resolved variables as sequences of components (st.rvar)
ZeroOn(r, cs) == \A j \in 1..Len(cs) : r[cs[j]] = DZero
PartlyZero(r, vs) == (\E j \in 1..Len(vs) : ZeroOn(r, vs[j])) /\ (\E j \in 1..Len(vs) : ~ZeroOn(r, vs[j]))
StalledStart(I, a, o) ==
  LET rv == ResolvedIn(I, Discs(I), a, o)
  IN  PartlyZero(FirstRes(I, a, o), [j \in 1..Cardinality(rv) |-> CompSeq(I, SeqOfSet(rv)[j])])
StalledStarts(I) == {p \in {"J", "GS"} \X Perms(ND(I)) : StalledStart(I, p[1], p[2])}

\* ---- the declared TYPE of the coupling data is not part of the system: disciplines that declare their
\* couplings as arrays of integers exchange the same values, wherever every value of the execution IS an
\* integer - the nilpotent family (integer B, c, xc, x, y0) without relaxation (w = 1: a factor k/2 halves)
\* and without acceleration; Integral (below) is the invariant that justifies it
IntegralOrbit(I, C) == I.fam = "nil" /\ C.w = 2

ASSUME Emit => \A I \in Instances : PrintT(<<"CASE", I, Envelope(I), Cardinality(Groups(I)), DelayedWeakOrders(I),
                                                 \A i \in Discs(I) : IsMDAGrp(I, Grp(I, i)), StalledStarts(I)>>)

\* base_mda.py _prepare_warm_start: the last outputs are loaded for BaseMDA._input_couplings only -
\* Jacobi: its resolved variables; Gauss-Seidel, MDAChain and its inner MDAs: the strong couplings;
\* every other value starts from the defaults again
WarmSet(I, C) == IF C.alg = "J" THEN ResolvedIn(I, Discs(I), "J", C.ord) ELSE StrongIn(I, Discs(I))

FirstPc(C, st) == IF ~st.mda THEN "single" ELSE IF st.inner = "GS" THEN "pre" ELSE "sweep"

\* b = ExAux(I), computed once per instance
Start(I, C, b) ==
  LET prog == ProgOf(I, C)
  IN  /\ inst = I /\ cfg = C
      /\ run = 1 /\ stage = 1
      /\ pc = FirstPc(C, prog[1])
      /\ pos = 0 /\ k = 0
      /\ y = DVec(I.y0) /\ bef = DVec(I.y0)
      /\ gq = << >>
      /\ r0 = [s \in 1..Len(prog) |-> << >>]
      /\ res = DVec([c \in 1..Dim(I) |-> 0])
      /\ log = << >>
      /\ aux = [den |-> b.den, ex |-> b.ex, prog |-> prog, one |-> OneGroup(I), warm |-> WarmSet(I, C),
                amp |-> [s \in 1..Len(prog) |-> IF OneGroup(I) THEN Amp(I, prog[s].inner, C.ord) ELSE AmpAny(I)]]

Init ==
  \E I \in Instances : LET b == TLCEval(ExAux(I)) IN
    \E C0 \in [alg : Algs, w : Ws, ord : Perms(ND(I)), t : {IF x = 99 THEN -1 ELSE x : x \in Tols},
               maxit : MaxIts, scal : Scals, warm : Warm] :
      \* the first stage of a sequence: algorithm, tolerance exponent, max_mda_iter
      \E fs \in IF C0.alg \in {"SJ", "SGS"} THEN {"J", "GS"} \X {1, 3} \X {1, 3} ELSE {<<"J", 1, 1>>} :
        LET C == [alg |-> C0.alg, w |-> C0.w, ord |-> C0.ord, t |-> C0.t, maxit |-> C0.maxit, scal |-> C0.scal,
                  warm |-> C0.warm, runs |-> IF IsSeq(C0) THEN 1 ELSE NRuns,
                  a1 |-> fs[1], t1 |-> fs[2], m1 |-> fs[3]]
        IN  /\ (C.warm => C.runs = 2)
            /\ Sel(I, C) \in SelRes             \* (first: cheap)
            /\ ValidCfg(I, C)
            /\ Start(I, C, b)

St == aux.prog[stage]
NDs == Len(St.ds)

Exec ==
  /\ pc \in {"pre", "sweep"} /\ pos < NDs
  /\ LET d   == St.ds[pos + 1]
         src == IF St.inner = "J" THEN bef ELSE y
     IN  y' = [c \in 1..Dim(inst) |-> IF c \in Comps(inst, d) THEN OutComp(inst, run, c, src) ELSE y[c]]
  /\ pos' = pos + 1
  /\ UNCHANGED <<inst, cfg, run, stage, pc, k, bef, gq, r0, res, log, aux>>

\* go to the next stage of the program (more = TRUE), or finish
AdvanceIf(newlog, more) ==
  /\ log' = newlog
  /\ gq' = << >> /\ k' = 0 /\ pos' = 0
  /\ IF more /\ stage < Len(aux.prog)
     THEN stage' = stage + 1 /\ pc' = FirstPc(cfg, aux.prog[stage + 1])
     ELSE stage' = stage /\ pc' = "done"
Advance(newlog) == AdvanceIf(newlog, TRUE)

\* sequential_mda.py: the remaining MDAs are skipped iff  mda.normed_residual < self.settings.tolerance,
\* the tolerance of the SEQUENCE (strict; a residual 0.0 is below any positive tolerance; at an exact
\* equality of non-zero sides a double may fall on either side)
HandOver == LET v == SmallT(cfg, cfg.t, res, r0[stage][1], St)
                z == \A j \in 1..Len(St.ridx) : res[St.ridx[j]] = DZero
            IN  IF z THEN {cfg.t = -1} ELSE IF v = "le" THEN {FALSE} ELSE IF v = "eq" THEN {TRUE, FALSE} ELSE {TRUE}

\* a stage that needs no MDA: its discipline is executed once on the current data
Single ==
  /\ pc = "single"
  /\ LET d == St.ds[1]
     IN  y' = [c \in 1..Dim(inst) |-> IF c \in Comps(inst, d) THEN OutComp(inst, run, c, y) ELSE y[c]]
  /\ bef' = y'
  /\ Advance(log)
  /\ UNCHANGED <<inst, cfg, run, r0, res, aux>>

\* gauss_seidel.py: one sweep before the loop; max_mda_iter = 0 returns after it
EndPre ==
  /\ pc = "pre" /\ pos = NDs
  /\ IF St.maxit = 0
     THEN /\ bef' = y
          /\ Advance(Append(log, <<0, FALSE>>))
     ELSE /\ pc' = "sweep" /\ bef' = y /\ pos' = 0
          /\ UNCHANGED <<stage, k, gq, log>>
  /\ UNCHANGED <<inst, cfg, run, y, r0, res, aux>>

EndSweep ==
  /\ pc = "sweep" /\ pos = NDs
  /\ res' = [c \in 1..Dim(inst) |-> IF \E j \in 1..Len(St.ridx) : St.ridx[j] = c THEN DSub(y[c], bef[c]) ELSE DZero]
  /\ r0' = IF r0[stage] = << >> THEN [r0 EXCEPT ![stage] = <<res'>>] ELSE r0
  /\ k' = k + 1
  /\ pc' = "test"
  /\ UNCHANGED <<inst, cfg, run, stage, pos, y, bef, gq, log, aux>>

Verd == Small(cfg, res, r0[stage][1], St)

Stop ==
  /\ pc = "test"
  /\ \E cv \in BOOLEAN :
        /\ \/ cv /\ Verd \in {"le", "eq"}
           \/ ~cv /\ Verd \in {"gt", "eq"} /\ k >= St.maxit
        /\ IF IsSeq(cfg)
           THEN \E more \in HandOver : AdvanceIf(Append(log, <<k, cv>>), more)
           ELSE Advance(Append(log, <<k, cv>>))
  /\ bef' = y
  /\ UNCHANGED <<inst, cfg, run, y, r0, res, aux>>

\* relaxation_acceleration.py + over_relaxation.py, acceleration NoTransformation
Continue ==
  /\ pc = "test"
  /\ Verd \in {"gt", "eq"} /\ k < St.maxit
  /\ y' = IF gq = << >> \/ cfg.w = 2 THEN y
          ELSE [c \in 1..Dim(inst) |->
                  IF \E j \in 1..Len(St.ridx) : St.ridx[j] = c
                  THEN DShr(DAdd(DScale(cfg.w, y[c]), DScale(2 - cfg.w, gq[1][c])), 1) ELSE y[c]]
  /\ gq' = <<y>>
  /\ bef' = y'
  /\ pos' = 0 /\ pc' = "sweep"
  /\ UNCHANGED <<inst, cfg, run, stage, k, r0, res, log, aux>>

\* a second execution of the same object with another input value
NewRun ==
  /\ pc = "done" /\ run < cfg.runs
  /\ run' = run + 1
  /\ y' = [c \in 1..Dim(inst) |-> IF cfg.warm /\ DiscOf(inst, c) \in aux.warm THEN y[c] ELSE DInt(inst.y0[c])]
  /\ bef' = y'
  /\ gq' = << >> /\ k' = 0 /\ pos' = 0 /\ log' = << >>
  /\ stage' = 1
  /\ pc' = FirstPc(cfg, aux.prog[1])
  /\ UNCHANGED <<inst, cfg, r0, res, aux>>

Next == Exec \/ Single \/ EndPre \/ EndSweep \/ Stop \/ Continue \/ NewRun
Spec == Init /\ [][Next]_vars

----------------------------------------------------------------------------
(* properties                                                               *)
OneStage == Len(aux.prog) = 1
Sweeps == k + (IF St.inner = "GS" THEN 1 ELSE 0)           \* sweeps completed at a test
Tested == pc = "test"

Budget == k <= MaxI(1, St.maxit)

NilExact ==
  (inst.fam = "nil" /\ OneStage /\ pc = "test" /\ Sweeps >= (IF cfg.w = 2 THEN 1 ELSE 2) * Dim(inst))
     => IsExact(aux.ex[run], aux.den, y)

\* an execution of the nilpotent family whose MDA stages all stopped by an absolute tolerance < 1
\* returns the exact point (one-stage programs and chains)
NilStop ==
  (/\ inst.fam = "nil" /\ pc = "done"
   /\ (cfg.t = -1 \/ (cfg.scal = "no" /\ cfg.t >= 1))
   /\ (IsSeq(cfg) => (cfg.t1 = -1 \/ (cfg.scal = "no" /\ cfg.t1 >= 1)))
   /\ (IF IsSeq(cfg) THEN log[Len(log)][2] ELSE \A j \in 1..Len(log) : log[j][2]))
     => IsExact(aux.ex[run], aux.den, y)

\* exponent of q in the a-priori bound after s sweeps
PowS == IF cfg.w = 2 THEN Sweeps
        ELSE (IF St.inner = "GS" THEN 1 ELSE 0) + ((k + 2) \div 2)
APriori ==
  (inst.fam = "con" /\ aux.one /\ OneStage /\ pc = "test" /\ run = 1 /\ cfg.w \in {1, 2}) =>
     LET E  == VExp(y)
         e0 == ErrInf(aux.ex[1], aux.den, DVec(inst.y0))    \* * d
     IN  \* err * d * 2^E * DB^p <= QN^p * e0 * d ... * 2^E
         BLeq(BShl(ErrInf(aux.ex[run], aux.den, y), inst.db * PowS),
              BShl(BMulSmall(e0, QN(inst) ^ PowS), E))

ResInf == LET E == VExp(res)
          IN  <<MaxTo([c \in 1..Dim(inst) |-> AbsI(DAt(res[c], E))], Dim(inst)), E>>
APost ==
  (Tested /\ (OneStage \/ IsSeq(cfg))) =>
     LET a  == aux.amp[stage]
         E  == VExp(y)
         rn == ResInf
         d  == aux.den
     IN  \* err * d * 2^E / (d 2^E) <= a1/a2 * rn1 / 2^rn2
         BLeq(BShl(BMulSmall(ErrInf(aux.ex[run], aux.den, y), a[2]), rn[2]),
              BShl(BMul(BMulSmall(BN(rn[1]), a[1]), BN(d)), E))

\* a sequence that stops before its last MDA stopped on a residual within ITS tolerance (res, r0 and
\* stage are those of the MDA that ran last)
SeqHandOver ==
  (IsSeq(cfg) /\ pc = "done" /\ Len(log) < Len(aux.prog)) =>
     SmallT(cfg, cfg.t, res, r0[stage][1], St) \in {"le", "eq"}

\* evaluated once per instance (a property of the instance, not of the state)
ChainEqualsMonolithic == (pc = "done" /\ run = 1) => ChainEqualsMonolithicOn(inst)

\* every value of an execution on an integral orbit is an integer (what lets the conformance check declare
\* the couplings as integers there)
Integral == IntegralOrbit(inst, cfg) => \A c \in 1..Dim(inst) : y[c][2] = 0 /\ bef[c][2] = 0 /\ res[c][2] = 0

\* a state in which the stop test runs against a scaling reference (the first residual ever computed by the
\* stage) that vanishes on some resolved variable and not on all: a witness for the conformance check
StalledRef == pc = "test" /\ St.mda /\ r0[stage] # << >> /\ PartlyZero(r0[stage][1], St.rvar)

TypeOK ==
  /\ pc \in {"pre", "sweep", "test", "single", "done"}
  /\ stage \in 1..Len(aux.prog)
  /\ pos \in 0..ND(inst) /\ run \in 1..cfg.runs
  /\ \A c \in 1..Dim(inst) : IsDyadic(y[c]) /\ IsDyadic(bef[c]) /\ IsDyadic(res[c])
=============================================================================
