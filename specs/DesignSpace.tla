----------------------------- MODULE DesignSpace -----------------------------
(* C02 - abstract specification of gemseo.algos.design_space.DesignSpace.         *)
(*                                                                                *)
(* State: the ordered list of variables (name, size, type, per-component bounds,  *)
(* optional current value) and the integer-normalisation switch.  EVERYTHING else *)
(* (dimension, index ranges, flat bounds, normalisation mask, dict/array views,   *)
(* normalised current value, images of vectors under (un)normalisation, gradient  *)
(* scaling, membership, projection, rounding) is an OPERATOR of that state.       *)
(*                                                                                *)
(* Exact arithmetic: every number is an integer counting EIGHTHS (U = 8), bounds  *)
(* are in {0, 2, 4} (i.e. 0, 16, 32 eighths) or infinite, so that widths are 0, 2 *)
(* or 4 and every affine map below is exact both here and in IEEE doubles; the    *)
(* invariant ExactSlice checks that no operator ever divides inexactly.           *)
(*                                                                                *)
(* Each public mutator is one action.  Queries do not change the abstract state   *)
(* (they are actions of DesignSpaceImpl, where they fill caches).                 *)
EXTENDS Integers, Sequences, FiniteSets, TLC

CONSTANTS
  NNames,       \* how many names of AllNames are in use; a new variable takes the first unused one
  MaxVars,      \* bound on the number of variables
  TemplateIds,  \* which variable templates (Tmpl) add_variable may use
  LBVals,       \* finite scalar arguments of set_lower_bound (eighths)
  UBVals,       \* finite scalar arguments of set_upper_bound (eighths)
  InfBounds,    \* whether -inf / +inf are also arguments of set_lower_bound / set_upper_bound
  CurChoices,   \* subset of {"lo","hi"}: rules picking an in-bounds value for set_current_value/variable
  MaxLevel      \* depth bound of the search (TLCGet("level"))

VARIABLES vars,     \* sequence of [name, size, type, lb, ub, hasv, val]
          intNorm   \* enable_integer_variables_normalization
absvars == <<vars, intNorm>>

U == 8
PInf == 1000000
NInf == -1000000
AllNames == <<"x", "yy", "z", "ww">>     \* "yy": a multi-character name is part of the quantifier

\* ------------------------------------------------------------------ templates
\* finite bounds in {0,16,32}: widths 0, 2, 4 (powers of two: exact in binary floating point)
Tmpl(k) ==
  CASE k = 1 -> [size |-> 2, type |-> "float",   lb |-> <<0, NInf>>,     ub |-> <<32, PInf>>]     \* [0,4] x R
    [] k = 2 -> [size |-> 1, type |-> "integer", lb |-> <<0>>,           ub |-> <<32>>]           \* {0..4}
    [] k = 3 -> [size |-> 2, type |-> "float",   lb |-> <<16, 0>>,       ub |-> <<16, 16>>]       \* {2} x [0,2]
    [] k = 4 -> [size |-> 1, type |-> "float",   lb |-> <<0>>,           ub |-> <<PInf>>]         \* [0,inf)
    [] k = 5 -> [size |-> 3, type |-> "integer", lb |-> <<0, 16, NInf>>, ub |-> <<32, 16, 16>>]   \* {0..4} x {2} x (..2]
    [] k = 6 -> [size |-> 3, type |-> "float",   lb |-> <<16, NInf, 0>>, ub |-> <<32, 0, 32>>]    \* [2,4] x (..0] x [0,4]

\* ------------------------------------------------------------------ helpers
Has(n) == \E i \in 1..Len(vars) : vars[i].name = n
Pos(n) == CHOOSE i \in 1..Len(vars) : vars[i].name = n
NamesOf(s) == [i \in 1..Len(s) |-> s[i].name]
FreeIdx == {i \in 1..NNames : ~Has(AllNames[i])}
HasFree == FreeIdx # {}
FreeName == AllNames[CHOOSE i \in FreeIdx : \A j \in FreeIdx : i <= j]
\* the subsequence of s at the positions in S (increasing order)
Sel(s, S) == LET F[i \in 0..Len(s)] == IF i = 0 THEN <<>>
                                       ELSE IF i \in S THEN Append(F[i-1], s[i]) ELSE F[i-1]
             IN F[Len(s)]

\* value rules (always inside the bounds; integral for integer variables because bounds are even)
Pick(c, lb, ub) ==
  CASE c = "lo"  -> IF lb # NInf THEN lb ELSE IF ub # PInf THEN ub ELSE 0
    [] c = "hi"  -> IF ub # PInf THEN ub ELSE IF lb # NInf THEN lb + U ELSE U
    [] c = "mid" -> IF lb = NInf THEN (IF ub = PInf THEN 0 ELSE ub)         \* initialize_missing_current_values
                    ELSE (IF ub = PInf THEN lb ELSE (lb + ub) \div 2)
PickV(c, v) == [j \in 1..v.size |-> Pick(c, v.lb[j], v.ub[j])]
WithVal(v, x) == [v EXCEPT !.hasv = TRUE, !.val = x]

\* ------------------------------------------------------------------ actions (public mutators)
Init == vars = <<>> /\ intNorm = FALSE

\* add_variable / extend / add_variables_from (the new variable goes to the END)
Add(t, wv) ==
  /\ Len(vars) < MaxVars /\ HasFree
  /\ LET T  == Tmpl(t)
         v0 == [name |-> FreeName, size |-> T.size, type |-> T.type, lb |-> T.lb, ub |-> T.ub,
                hasv |-> FALSE, val |-> <<>>]
     IN vars' = Append(vars, IF wv THEN WithVal(v0, PickV("lo", v0)) ELSE v0)
  /\ UNCHANGED intNorm

\* remove_variable: the others keep their relative order
Remove(n) ==
  /\ Has(n)
  /\ vars' = Sel(vars, {i \in 1..Len(vars) : vars[i].name # n})
  /\ UNCHANGED intNorm

\* filter(keep): keep a non-empty proper subset of the variables
Filter(keep) ==
  /\ keep # {} /\ \A n \in keep : Has(n)
  /\ \E i \in 1..Len(vars) : vars[i].name \notin keep
  /\ vars' = Sel(vars, {i \in 1..Len(vars) : vars[i].name \in keep})
  /\ UNCHANGED intNorm

\* rename_variable: IN PLACE (position, size, type, bounds and value are kept)
Rename(n) ==
  /\ Has(n) /\ HasFree
  /\ vars' = [vars EXCEPT ![Pos(n)].name = FreeName]
  /\ UNCHANGED intNorm

\* filter_dimensions(name, dims): keep the components in S (a non-empty proper subset), in order
FilterDims(n, S) ==
  /\ Has(n)
  /\ LET k == Pos(n) v == vars[k] IN
       /\ S # {} /\ S \subseteq 1..v.size /\ S # 1..v.size
       /\ vars' = [vars EXCEPT ![k] = [v EXCEPT !.size = Cardinality(S), !.lb = Sel(v.lb, S),
                                                !.ub = Sel(v.ub, S), !.val = Sel(v.val, S)]]
  /\ UNCHANGED intNorm

\* set_lower_bound(name, scalar) / set_upper_bound(name, scalar): documented to raise when lb > ub
SetLB(n, b) ==
  /\ Has(n)
  /\ LET k == Pos(n) IN
       /\ \A j \in 1..vars[k].size : b <= vars[k].ub[j]
       /\ vars' = [vars EXCEPT ![k].lb = [j \in 1..vars[k].size |-> b]]
  /\ UNCHANGED intNorm
SetUB(n, b) ==
  /\ Has(n)
  /\ LET k == Pos(n) IN
       /\ \A j \in 1..vars[k].size : vars[k].lb[j] <= b
       /\ vars' = [vars EXCEPT ![k].ub = [j \in 1..vars[k].size |-> b]]
  /\ UNCHANGED intNorm

\* set_current_value(array | dict) with a full in-bounds value
SetCurAll(c) ==
  /\ vars # <<>>
  /\ vars' = [i \in 1..Len(vars) |-> WithVal(vars[i], PickV(c, vars[i]))]
  /\ UNCHANGED intNorm
\* set_current_variable(name, value)
SetCurVar(n, c) ==
  /\ Has(n)
  /\ vars' = [vars EXCEPT ![Pos(n)] = WithVal(@, PickV(c, @))]
  /\ UNCHANGED intNorm
\* initialize_missing_current_values
InitMissing ==
  /\ \E i \in 1..Len(vars) : ~vars[i].hasv
  /\ vars' = [i \in 1..Len(vars) |-> IF vars[i].hasv THEN vars[i] ELSE WithVal(vars[i], PickV("mid", vars[i]))]
  /\ UNCHANGED intNorm
\* enable_integer_variables_normalization = not intNorm
ToggleIntNorm == intNorm' = ~intNorm /\ UNCHANGED vars

LBSet == LBVals \cup (IF InfBounds THEN {NInf} ELSE {})
UBSet == UBVals \cup (IF InfBounds THEN {PInf} ELSE {})
Names == {AllNames[i] : i \in 1..NNames}
CurNames == {vars[i].name : i \in 1..Len(vars)}
Next ==
  \/ \E t \in TemplateIds, wv \in BOOLEAN : Add(t, wv)
  \/ \E n \in Names : Remove(n)
  \/ \E n \in Names : Rename(n)
  \/ \E keep \in SUBSET Names : Filter(keep)
  \/ \E n \in Names, S \in SUBSET (1..3) : FilterDims(n, S)
  \/ \E n \in Names, b \in LBSet : SetLB(n, b)
  \/ \E n \in Names, b \in UBSet : SetUB(n, b)
  \/ \E c \in CurChoices : SetCurAll(c)
  \/ \E n \in Names, c \in CurChoices : SetCurVar(n, c)
  \/ InitMissing
  \/ ToggleIntNorm
Spec == Init /\ [][Next]_absvars
Bounded == TLCGet("level") <= MaxLevel

\* ================================================================== views (operators of the state)
\* flat list of components
CompOf(v, j, inorm) ==
  [lb |-> v.lb[j], ub |-> v.ub[j], isint |-> (v.type = "integer"),
   norm |-> (v.lb[j] # NInf /\ v.ub[j] # PInf /\ (v.type = "float" \/ inorm)),  \* the normalisation policy
   hasv |-> v.hasv, val |-> IF v.hasv THEN v.val[j] ELSE 0]
RECURSIVE CompsOf(_, _)
CompsOf(s, inorm) == IF s = <<>> THEN <<>>
                     ELSE [j \in 1..Head(s).size |-> CompOf(Head(s), j, inorm)] \o CompsOf(Tail(s), inorm)
C == CompsOf(vars, intNorm)
Dim == Len(C)
RECURSIVE StartsOf(_, _)
StartsOf(s, off) == IF s = <<>> THEN <<>> ELSE <<off>> \o StartsOf(Tail(s), off + Head(s).size)
\* index range of the i-th variable in the flat design vector: <<start, stop>> (stop excluded)
RangesOf(s) == LET st == StartsOf(s, 0) IN [i \in 1..Len(s) |-> <<st[i], st[i] + s[i].size>>]
Ranges == RangesOf(vars)
PolicyOf(v, inorm) == [j \in 1..v.size |-> CompOf(v, j, inorm).norm]
HasCur == vars # <<>> /\ \A i \in 1..Len(vars) : vars[i].hasv

\* ---- per-component maps (c: component record, x/y/g: eighths)
W(c) == c.ub - c.lb
\* normalize_vect: affine map of [lb,ub] onto [0,1] on normalised components (x - lb when lb = ub), identity elsewhere
N(c, x) == IF ~c.norm THEN x ELSE IF W(c) = 0 THEN x - c.lb ELSE (U * (x - c.lb)) \div W(c)
\* unnormalize_vect before rounding
U0(c, y) == IF ~c.norm THEN y ELSE (y * W(c)) \div U + c.lb
\* rounding of integer components: nearest integer; a tie may go either way (the property does not say)
Floor8(x) == (x \div U) * U
RLo(x) == IF x - Floor8(x) <= 4 THEN Floor8(x) ELSE Floor8(x) + U
RHi(x) == IF x - Floor8(x) < 4 THEN Floor8(x) ELSE Floor8(x) + U
ULo(c, y) == IF c.isint THEN RLo(U0(c, y)) ELSE U0(c, y)
UHi(c, y) == IF c.isint THEN RHi(U0(c, y)) ELSE U0(c, y)
\* gradient scaling: d/dx_n = (ub - lb) d/dx ; its inverse where ub > lb
NG(c, g) == IF c.norm THEN (g * W(c)) \div U ELSE g
UG(c, g) == IF c.norm /\ W(c) > 0 THEN (U * g) \div W(c) ELSE g
UGdefined(c) == ~c.norm \/ W(c) > 0
Member(c, x) == c.lb <= x /\ x <= c.ub
Proj(c, x) == IF x < c.lb THEN c.lb ELSE IF x > c.ub THEN c.ub ELSE x
Proj01(x) == IF x < 0 THEN 0 ELSE IF x > U THEN U ELSE x

\* ---- probe vectors (functions of the state, on the exact lattice)
XIn(c) == IF c.lb # NInf /\ c.ub # PInf
            THEN (IF c.isint THEN c.lb + W(c) \div 2 ELSE c.lb + W(c) \div 4)
          ELSE IF c.lb # NInf THEN c.lb + (IF c.isint THEN U ELSE 4)
          ELSE IF c.ub # PInf THEN c.ub - (IF c.isint THEN 2 * U ELSE 12)
          ELSE (IF c.isint THEN 3 * U ELSE 20)
XLo(c) == IF c.lb # NInf THEN c.lb - U ELSE XIn(c)       \* below the lower bound where there is one
XHi(c) == IF c.ub # PInf THEN c.ub + U ELSE XIn(c)       \* above the upper bound where there is one
XFr(c) == XIn(c) + 4                                     \* half a unit further (still on the lattice)
Cyc(s, k) == s[((k - 1) % Len(s)) + 1]
YPat == <<2, 5, 8, 0, 3, 7>>          \* normalised probes in [0,1]
ZPat == <<-4, 12, 4, 8, 0, 20>>       \* normalised probes inside and outside [0,1]
GPat == <<8, -24, 16, 40, -8>>        \* integer-valued gradient
HPat == <<4, -12, 8, 20, -4>>         \* half-integer-valued gradient
R1(c) == XIn(c) + 2
R2(c) == XIn(c) + 4                                      \* a tie on integer components
R3(c) == XIn(c) - 3
\* (operators take the component list cs explicitly so that TLC evaluates it once per state)
VecOn(cs, f(_)) == [k \in 1..Len(cs) |-> f(cs[k])]
PVecOn(n, pat) == [k \in 1..n |-> Cyc(pat, k)]
MapOn(cs, f(_, _), x) == [k \in 1..Len(cs) |-> f(cs[k], x[k])]
XsOn(cs) == <<VecOn(cs, XIn), VecOn(cs, XLo), VecOn(cs, XHi), VecOn(cs, XFr)>>  \* the first three are integral on integer components
RsOn(cs) == <<VecOn(cs, R1), VecOn(cs, R2), VecOn(cs, R3)>>                     \* probes of round_vect (no division involved)
YsOn(n) == <<PVecOn(n, YPat), PVecOn(n, ZPat)>>
GsOn(n) == <<PVecOn(n, GPat), PVecOn(n, HPat)>>
AllMemberOn(cs, x) == \A k \in 1..Len(cs) : Member(cs[k], x[k])
\* ---- probe JACOBIAN (2 x dim, one gradient per row): distinct rows, zero entries at different places in the
\*      two rows (a non-trivial, non-symmetric sparsity pattern), entries that are multiples of 1/2 (exact scaling)
J1Pat == <<8, 0, -24, 16, 0, 40>>
J2Pat == <<12, 4, 0, -20, -8, 0>>
JacOn(n) == <<PVecOn(n, J1Pat), PVecOn(n, J2Pat)>>
MapRowsOn(cs, f(_, _), m) == [r \in 1..Len(m) |-> MapOn(cs, f, m[r])]
\* the REPRESENTATIONS in which a gradient / Jacobian may be handed to normalize_grad / unnormalize_grad (a row at
\* a time as a 1-D array, a dense 2-D array, scipy.sparse arrays in CSR, CSC and COO storage).  The image is a
\* function of the MATRIX: it is the same in every representation, and the argument is left unchanged.
GradReprs == <<"dense1d", "dense2d", "csr", "csc", "coo">>
\* project_into_bounds(y, normalized=True): y is a NORMALISED vector, i.e. its normalised components live in [0,1]
\* and the others are still in the units of the variable, where the bounds of the variable apply
ProjN(c, y) == IF c.norm THEN Proj01(y) ELSE Proj(c, y)
RECURSIVE Join(_)
Join(d) == IF d = <<>> THEN <<>> ELSE Head(d) \o Join(Tail(d))
SplitOn(rg, x) == [i \in 1..Len(rg) |-> SubSeq(x, rg[i][1] + 1, rg[i][2])]       \* array -> dict (in variable order)
Reverse(s) == [i \in 1..Len(s) |-> s[Len(s) + 1 - i]]
\* state-level shorthands
FlatLB == [k \in 1..Dim |-> C[k].lb]
FlatUB == [k \in 1..Dim |-> C[k].ub]
NormVec == [k \in 1..Dim |-> C[k].norm]
IsIntVec == [k \in 1..Dim |-> C[k].isint]
CurFlat == [k \in 1..Dim |-> C[k].val]
NormCur == LET cs == C IN [k \in 1..Len(cs) |-> N(cs[k], cs[k].val)]
IndexesOn(rg, ns) == Join([i \in 1..Len(ns) |-> [j \in 1..vars[Pos(ns[i])].size |-> rg[Pos(ns[i])][1] + j - 1]])

\* what the implementation must show in this state (expected results of the public accessors)
View == LET cs == C  n == Len(cs)  rg == Ranges  xs == XsOn(cs)  rs == RsOn(cs)  ys == YsOn(n)  gs == GsOn(n)
            hc == HasCur  cf == [k \in 1..n |-> cs[k].val] IN [
  names  |-> NamesOf(vars),
  sizes  |-> [i \in 1..Len(vars) |-> vars[i].size],
  types  |-> [i \in 1..Len(vars) |-> vars[i].type],
  ranges |-> rg,
  dim    |-> n,
  lb     |-> [k \in 1..n |-> cs[k].lb],
  ub     |-> [k \in 1..n |-> cs[k].ub],
  policy |-> [i \in 1..Len(vars) |-> PolicyOf(vars[i], intNorm)],
  isint  |-> [k \in 1..n |-> cs[k].isint],
  norm   |-> [k \in 1..n |-> cs[k].norm],
  ugdef  |-> [k \in 1..n |-> UGdefined(cs[k])],
  hascur |-> hc,
  cur    |-> IF hc THEN cf ELSE <<>>,
  curn   |-> IF hc THEN MapOn(cs, N, cf) ELSE <<>>,
  xs     |-> xs,
  nxs    |-> [p \in 1..Len(xs) |-> MapOn(cs, N, xs[p])],              \* normalize_vect / transform_vect
  mem    |-> [p \in 1..3 |-> AllMemberOn(cs, xs[p])],                 \* check_membership (bounds)
  proj   |-> [p \in 1..Len(xs) |-> MapOn(cs, Proj, xs[p])],           \* project_into_bounds
  rs     |-> rs,
  rlo    |-> [p \in 1..Len(rs) |-> [k \in 1..n |-> IF cs[k].isint THEN RLo(rs[p][k]) ELSE rs[p][k]]],  \* round_vect
  rhi    |-> [p \in 1..Len(rs) |-> [k \in 1..n |-> IF cs[k].isint THEN RHi(rs[p][k]) ELSE rs[p][k]]],
  split  |-> SplitOn(rg, xs[1]),                                      \* convert_array_to_dict
  ys     |-> ys,
  ulo    |-> [p \in 1..Len(ys) |-> MapOn(cs, ULo, ys[p])],            \* unnormalize_vect / untransform_vect
  uhi    |-> [p \in 1..Len(ys) |-> MapOn(cs, UHi, ys[p])],
  p01    |-> [p \in 1..Len(ys) |-> [k \in 1..n |-> Proj01(ys[p][k])]],    \* project_into_bounds(normalized=True)
  gs     |-> gs,
  ng     |-> [p \in 1..Len(gs) |-> MapOn(cs, NG, gs[p])],             \* normalize_grad
  ug     |-> [p \in 1..Len(gs) |-> MapOn(cs, UG, gs[p])],             \* unnormalize_grad
  greprs |-> GradReprs,                                               \* representations of a gradient/Jacobian argument
  jac    |-> JacOn(n),                                                \* probe Jacobian (2 x dim)
  ngj    |-> MapRowsOn(cs, NG, JacOn(n)),                             \* normalize_grad(Jacobian), whatever the representation
  ugj    |-> MapRowsOn(cs, UG, JacOn(n)),                             \* unnormalize_grad(Jacobian), whatever the representation
  pnb    |-> [p \in 1..Len(ys) |-> MapOn(cs, ProjN, ys[p])],          \* project_into_bounds(normalized=True), all components
  snames |-> Join([i \in 1..Len(vars) |-> [j \in 1..vars[i].size |->       \* get_indexed_variable_names / to_scalar_variables
                IF vars[i].size = 1 THEN vars[i].name ELSE vars[i].name \o "[" \o ToString(j - 1) \o "]"]]),
  shasv  |-> [k \in 1..n |-> cs[k].hasv],
  cvals  |-> cf,                                                      \* per component: the value (0 where there is none)
  curin  |-> \A k \in 1..n : cs[k].hasv => Member(cs[k], cs[k].val),  \* the current value is inside the bounds
  idxrev |-> IndexesOn(rg, Reverse(NamesOf(vars))),                   \* get_variables_indexes(reversed names, False)
  idxall |-> IndexesOn(rg, NamesOf(vars))                             \* get_variables_indexes(reversed names, True)
]
\* (printed per state by DesignSpaceViews!EmitIdx)

\* ================================================================== invariants (the property, on the model)
TypeOK ==
  /\ intNorm \in BOOLEAN /\ Len(vars) <= MaxVars
  /\ \A i, j \in 1..Len(vars) : i # j => vars[i].name # vars[j].name
  /\ \A i \in 1..Len(vars) : LET v == vars[i] IN
       /\ v.size >= 1 /\ Len(v.lb) = v.size /\ Len(v.ub) = v.size
       /\ Len(v.val) = (IF v.hasv THEN v.size ELSE 0)
       /\ \A j \in 1..v.size : v.lb[j] <= v.ub[j] /\ v.lb[j] # PInf /\ v.ub[j] # NInf
       /\ (v.type = "integer" /\ v.hasv) => \A j \in 1..v.size : v.val[j] % U = 0
\* every division performed by the operators on the probes and on the current value is exact
ExactN(c, x) == (c.norm /\ W(c) > 0) => (U * (x - c.lb)) % W(c) = 0
\* index ranges partition 0..Dim-1 in the order of the variables
Partition == LET rg == Ranges n == Dim IN
  /\ (vars # <<>> => rg[1][1] = 0 /\ rg[Len(vars)][2] = n)
  /\ \A i \in 1..Len(vars) : rg[i][2] - rg[i][1] = vars[i].size
  /\ \A i \in 1..(Len(vars) - 1) : rg[i][2] = rg[i + 1][1]
\* the algebra of C02 on every component of the state and every probe
Algebra == LET cs == C  n == Len(cs)  xs == XsOn(cs)  ys == YsOn(n)  gs == GsOn(n) IN
  /\ (n > 0 => AllMemberOn(cs, xs[1]))        \* the interior probe is a member
  /\ \A k \in 1..n : LET c == cs[k] IN
     \* ExactSlice
     /\ \A p \in 1..Len(xs) : ExactN(c, xs[p][k])
     /\ (c.hasv => ExactN(c, c.val))
     /\ \A p \in 1..Len(ys) : c.norm => (ys[p][k] * W(c)) % U = 0
     /\ \A p \in 1..Len(gs) : c.norm => ((gs[p][k] * W(c)) % U = 0 /\ (W(c) > 0 => (U * gs[p][k]) % W(c) = 0))
     \* RoundTrip: unnormalisation inverts normalisation (where ub > lb), both are the identity on the other components
     /\ \A p \in 1..Len(xs) : LET x == xs[p][k] IN
          /\ (~c.norm => N(c, x) = x /\ U0(c, x) = x)
          /\ ((c.norm /\ W(c) > 0) => U0(c, N(c, x)) = x)
          /\ ((c.norm /\ W(c) > 0 /\ c.isint /\ x % U = 0) => (ULo(c, N(c, x)) = x /\ UHi(c, N(c, x)) = x))
          \* ProjMember: projection lands in the bounds and fixes members
          /\ Member(c, Proj(c, x)) /\ (Member(c, x) => Proj(c, x) = x)
          \* UnitImage (a): members go to [0,1]
          /\ ((c.norm /\ W(c) > 0 /\ Member(c, x)) => (0 <= N(c, x) /\ N(c, x) <= U))
     \* UnitImage (b): lb -> 0, ub -> 1
     /\ (c.norm => (N(c, c.lb) = 0 /\ U0(c, 0) = c.lb))
     /\ ((c.norm /\ W(c) > 0) => (N(c, c.ub) = U /\ U0(c, U) = c.ub))
     \* GradInverse
     /\ \A p \in 1..Len(gs) : LET g == gs[p][k] IN
          UGdefined(c) => (UG(c, NG(c, g)) = g /\ NG(c, UG(c, g)) = g)
  \* Lossless: dict <-> array
  /\ \A p \in 1..Len(xs) : Join(SplitOn(Ranges, xs[p])) = xs[p]
\* the same algebra on the probe Jacobian and on the projection of normalised vectors
JacAlgebra == LET cs == C  n == Len(cs)  jac == JacOn(n)  ys == YsOn(n) IN
  /\ (n > 0 => jac[1] # jac[2])
  /\ \A k \in 1..n : LET c == cs[k] IN
     /\ \A r \in 1..Len(jac) : LET g == jac[r][k] IN
          /\ (c.norm => ((g * W(c)) % U = 0 /\ (W(c) > 0 => (U * g) % W(c) = 0)))        \* ExactSlice
          /\ (UGdefined(c) => (UG(c, NG(c, g)) = g /\ NG(c, UG(c, g)) = g))              \* GradInverse, row by row
          /\ (~c.norm => (NG(c, g) = g /\ UG(c, g) = g))                                 \* the other columns are unchanged
     \* ProjNormMember: the projection of a normalised vector is the normalised image of a member, and a
     \* normalised vector that is the image of a member is left unchanged
     /\ \A p \in 1..Len(ys) : LET y == ys[p][k] IN
          /\ Member(c, U0(c, ProjN(c, y)))
          /\ (Member(c, U0(c, y)) /\ (c.norm => W(c) > 0) => ProjN(c, y) = y)
\* TLC also evaluates invariants on the (many, never stored) states just beyond the depth bound: skip them there
InBound == TLCGet("level") <= MaxLevel    \* (not the CONSTRAINT operator itself: TLC -coverage cannot share it)
TypeOKB == InBound => TypeOK
PartitionB == InBound => Partition
AlgebraB == InBound => Algebra
JacAlgebraB == InBound => JacAlgebra
\* rounded values are integers at distance at most 1/2 (constant-level)
ASSUME Rounding == \A x \in -40..40 : /\ RLo(x) % U = 0 /\ RHi(x) % U = 0 /\ RLo(x) <= RHi(x)
                                      /\ x - RLo(x) <= 4 /\ RLo(x) - x <= 4 /\ x - RHi(x) <= 4 /\ RHi(x) - x <= 4
                                      /\ (x % U # 4 => RLo(x) = RHi(x))
==============================================================================
