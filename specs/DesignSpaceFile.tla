--------------------------- MODULE DesignSpaceFile ---------------------------
(* C11 - a design space written to a text file (DesignSpace.to_csv) or to an   *)
(* HDF5 group (DesignSpace.to_hdf) and read back (from_csv / from_hdf).        *)
(*                                                                             *)
(* Instances are enumerated as initial states: every sequence of at most NVars *)
(* variables, each of size 1 or 2, float or integer, with one of five bound    *)
(* patterns (finite, -inf below, +inf above, unbounded, mixed per component)   *)
(* and with or without a current value; the names have several characters.     *)
(* Numbers are integer ids: the harness maps id n to n/7 for a float variable  *)
(* (most of them need 17 significant digits to be told from their neighbours)  *)
(* and to n for an integer variable.  An id in a row of the text file means    *)
(* "a text from which exactly that number is read": the text form must         *)
(* identify the number, as the binary form does (C11: same bounds and values). *)
(* For every instance the module computes the rows of the text file and the    *)
(* layout of the HDF5 group, decodes them again as the readers do, and states  *)
(* that the decoded space is the instance (RoundTripCsv, RoundTripHdf).  Rows  *)
(* and layout are printed for the harness, which compares them with what       *)
(* gemseo writes, and the instance with the spaces gemseo reads back.          *)
EXTENDS Naturals, Integers, Sequences, FiniteSets, TLC
CONSTANTS NVars, Sizes, Types, Patterns
VARIABLES shapes          \* the instance: a sequence of variable shapes

VarNames == <<"x", "yy", "alpha_1">>
Shape == [size : Sizes, type : Types, pat : Patterns, hasVal : BOOLEAN]
Instances == UNION {[1..n -> Shape] : n \in 1..NVars}

Fin(n) == [inf |-> FALSE, n |-> n]
MinusInf == [inf |-> TRUE, n |-> -1]
PlusInf == [inf |-> TRUE, n |-> 1]
\* bounds of component i of variable j under a pattern
Lb(j, i, pat) == IF pat \in {"low_inf", "free"} \/ (pat = "mixed" /\ i = 1) THEN MinusInf ELSE Fin(-(10 * j + i))
Ub(j, i, pat) == IF pat \in {"up_inf", "free"} \/ (pat = "mixed" /\ i # 1) THEN PlusInf ELSE Fin(10 * j + i + 3)
Val(j, i) == j + i
Var(j, s) == [name |-> VarNames[j], size |-> s.size, type |-> s.type,
              lb |-> [i \in 1..s.size |-> Lb(j, i, s.pat)],
              ub |-> [i \in 1..s.size |-> Ub(j, i, s.pat)],
              hasVal |-> s.hasVal,
              val |-> IF s.hasVal THEN [i \in 1..s.size |-> Val(j, i)] ELSE <<>>]
Space(sh) == [j \in 1..Len(sh) |-> Var(j, sh[j])]

-----------------------------------------------------------------------------
\* to_csv: a header line with the field names, then one row per component;
\* a missing current value is printed None
CsvHeader == <<"name", "lower_bound", "value", "upper_bound", "type">>
RowsOf(v) == [i \in 1..v.size |-> [name |-> v.name, some |-> v.hasVal, value |-> IF v.hasVal THEN v.val[i] ELSE 0,
                                   lb |-> v.lb[i], ub |-> v.ub[i], type |-> v.type]]
RECURSIVE Flatten(_, _)
Flatten(sp, j) == IF j > Len(sp) THEN <<>> ELSE RowsOf(sp[j]) \o Flatten(sp, j + 1)
CsvRows(sp) == Flatten(sp, 1)

\* from_csv: the names in order of first appearance; size = number of rows with the name; bounds and
\* value = the next `size` rows; value None as soon as one of them prints None; type of the first row
RECURSIVE Group(_, _)
Group(rows, k) ==
  IF k > Len(rows) THEN <<>>
  ELSE LET name == rows[k].name
           size == Cardinality({r \in 1..Len(rows) : rows[r].name = name})
           mine == [i \in 1..size |-> rows[k + i - 1]]
           has == \A i \in 1..size : mine[i].some
       IN <<[name |-> name, size |-> size, type |-> rows[k].type,
             lb |-> [i \in 1..size |-> mine[i].lb], ub |-> [i \in 1..size |-> mine[i].ub],
             hasVal |-> has, val |-> IF has THEN [i \in 1..size |-> mine[i].value] ELSE <<>>]>>
          \o Group(rows, k + size)
FromCsv(rows) == Group(rows, 1)

\* to_hdf: dataset "names", one group per variable with size, l_b, u_b, var_type (the type repeated
\* per component) and value (only when there is a current value)
HdfOf(sp) == [names |-> [j \in 1..Len(sp) |-> sp[j].name],
              groups |-> [j \in 1..Len(sp) |->
                  [name |-> sp[j].name, size |-> sp[j].size, l_b |-> sp[j].lb, u_b |-> sp[j].ub,
                   var_type |-> [i \in 1..sp[j].size |-> sp[j].type],
                   hasValue |-> sp[j].hasVal, value |-> sp[j].val]]]
\* from_hdf: for name in names: add_variable(name, size, var_type[0], l_b, u_b, value)
FromHdf(h) ==
  [j \in 1..Len(h.names) |->
     LET g == h.groups[CHOOSE q \in 1..Len(h.groups) : h.groups[q].name = h.names[j]]
     IN [name |-> h.names[j], size |-> g.size, type |-> g.var_type[1], lb |-> g.l_b, ub |-> g.u_b,
         hasVal |-> g.hasValue, val |-> g.value]]

-----------------------------------------------------------------------------
Init == shapes \in Instances
Next == UNCHANGED shapes
Spec == Init /\ [][Next]_shapes

RoundTripCsv == FromCsv(CsvRows(Space(shapes))) = Space(shapes)
RoundTripHdf == FromHdf(HdfOf(Space(shapes))) = Space(shapes)
RowCount == Len(CsvRows(Space(shapes))) = Len(shapes) + Cardinality({j \in 1..Len(shapes) : shapes[j].size = 2})
\* the instance with what the specification expects in the files (evaluated once per instance)
Emit == PrintT(<<"CASE", Space(shapes), CsvHeader, CsvRows(Space(shapes)), HdfOf(Space(shapes))>>)
=============================================================================
