-------------------------------- MODULE DepGraph --------------------------------
(***************************************************************************)
(* C08 - execution sequences respect data dependencies; composition exact. *)
(*                                                                         *)
(* gemseo: core/dependency_graph.py (DependencyGraph), core/coupling_      *)
(* structure.py (CouplingStructure), core/chains/{chain,parallel_chain,    *)
(* initialization_chain}.py, mda/mda_chain.py.                             *)
(*                                                                         *)
(* A system g is a list of n disciplines (position p = place in the list   *)
(* the user passed), each with a set of input names g.ins[p] and a set of  *)
(* output names g.outs[p].  Everything the property speaks about is        *)
(* defined from these name sets only:                                      *)
(*   Edge, Reach, SCCs           the data-dependency graph                 *)
(*   ValidSequence(g, seq)       the RELATION a schedule must satisfy      *)
(*   AllC, StrongC, WeakC, ...   the coupling sets as the API documents    *)
(* The numeric layer (g.w, g.c, g.x0) turns g into an integer data-flow    *)
(* system out = SUM w*in + c that is nilpotent although the graph may be   *)
(* strongly connected (weight 0 on the edges that close a cycle), so that  *)
(* the simultaneous solution Mono(g) is an integer vector that TLC         *)
(* computes and that IEEE doubles compute exactly too.                     *)
(*                                                                         *)
(* TLC enumerates the systems as initial states (family "E": every edge    *)
(* set on n nodes, one private variable per edge, self-loops, isolated     *)
(* nodes, every listing order, with/without private inputs/outputs,        *)
(* duplicated discipline names; family "N": every assignment of input and  *)
(* output name sets over a small universe, which adds shared variables,    *)
(* fan-out and several producers of one name).  An instance is a number    *)
(* whose bits are the adjacency matrix / the set memberships; SampleMod    *)
(* and Pick select sub-families for the sizes that are not enumerated      *)
(* completely.  Along each behaviour                                       *)
(*   Build     the disciplines are created from the instance               *)
(*   Condense  the strongly connected components become the nodes          *)
(*   Peel      the leaves of the condensation are removed, stage by stage  *)
(*   Reverse   the list of stages is reversed                              *)
(*   EmitCase  (behaviour generation) the instance is printed with what    *)
(*             the specification expects of the implementation             *)
(* follow DependencyGraph.get_execution_sequence step by step.  Invariants *)
(* (checked by TLC on every instance):                                     *)
(*   SCCPartition, CondensationAcyclic, PeelInv   the construction         *)
(*   ConstructionValid          its result is in the relation ValidSequence*)
(*   ScheduleRespectsDependencies, NoEmptyStage                            *)
(*   CouplingFacts              relations between the documented sets      *)
(*   Nilpotent                  the numeric layer has one integer solution *)
(*   CompositionTheorem         executing any schedule of the relation     *)
(*                              (sequentially, stage-parallel, as a chain) *)
(*                              yields Mono(g) from any initial guess      *)
(*   InitChainTheorem           the greedy initialization order exists     *)
(*                              exactly for acyclic systems and is valid   *)
(*   MDAGroupsTheorem           the groups of a valid sequence that get an *)
(*                              inner MDA (NeedsMDA) are the strong groups;*)
(*                              the k-th user-provided sub coupling        *)
(*                              structure belongs to the k-th such group   *)
(*   InitDefaultsTheorem        with default values for the free names and *)
(*                              the strong couplings only, the             *)
(*                              initialization order exists                *)
(*   MDAChainOptionsTheorem     MDAChain = the sequence turned into        *)
(*                              sub-processes under its options (inner MDA *)
(*                              class, tasks of a stage in parallel or in  *)
(*                              sequence, initialization of the defaults); *)
(*                              every combination yields Mono(g)           *)
(* DepGraphReport.tla evaluates the same operators on what the real gemseo *)
(* objects returned for each printed instance.                             *)
(***************************************************************************)
EXTENDS Integers, Sequences, FiniteSets, TLC

CONSTANTS
  Fam,         \* "E" | "N"
  NMin, NMax,  \* numbers of disciplines
  OrderMode,   \* "all" | "rot" | "id"      listing orders (family E)
  LoopMode,    \* "all" | "none"            self-loops enumerated or not (family E)
  Privs,       \* subset of BOOLEAN         private input x_d / output y_d present (family E)
  Dups,        \* subset of BOOLEAN         all disciplines carry the same name (family E)
  UK,          \* number of names           (family N: the names are the first UK of UNames)
  SampleMod, SampleKey,   \* keep the instance iff (Hash + SampleKey) % SampleMod = 0
  Pick,        \* 0: enumerate every code and filter; > 0: that many codes spread over the whole range
  Emit,        \* TRUE: print one CASE record per instance
  NInner,      \* the inner MDA classes of the MDAChain options: the first NInner of InnerNames
  OptMod       \* 0: no MDAChain option runs; > 0: about |MDAOptionSpace| / OptMod option records per instance

---------------------------------------------------------------------------------
(* generic helpers *)
ToSet(s) == {s[k] : k \in 1..Len(s)}
RECURSIVE Sum(_, _)
Sum(S, f) == IF S = {} THEN 0 ELSE LET v == CHOOSE v \in S : TRUE IN f[v] + Sum(S \ {v}, f)
Min(S) == CHOOSE x \in S : \A y \in S : x <= y
RECURSIVE SortedSeq(_)
SortedSeq(S) == IF S = {} THEN <<>> ELSE LET m == Min(S) IN <<m>> \o SortedSeq(S \ {m})
RECURSIVE Rev(_)
Rev(s) == IF s = <<>> THEN <<>> ELSE Append(Rev(Tail(s)), Head(s))

---------------------------------------------------------------------------------
(* the dependency graph of a system, from its name sets *)
Pos(g) == 1..g.n
Edge(g, i, j) == i # j /\ (g.outs[i] \cap g.ins[j]) # {}
SelfCoupled(g, i) == (g.ins[i] \cap g.outs[i]) # {}
EdgeRel(g) == {e \in Pos(g) \X Pos(g) : Edge(g, e[1], e[2])}
Comp(R, S) == UNION {{<<r[1], s[2]>> : s \in {t \in S : t[1] = r[2]}} : r \in R}
RECURSIVE Closure(_, _)
Closure(R, k) == IF k = 0 THEN R ELSE LET C == Closure(R, k - 1) IN C \cup Comp(C, R)
Reach(g) == Closure(EdgeRel(g), g.n)            \* <<i,j>>: a non-empty path from i to j
Mutual(T, i, j) == i = j \/ (<<i, j>> \in T /\ <<j, i>> \in T)
SCCsOf(g) == LET T == Reach(g) IN {{j \in Pos(g) : Mutual(T, i, j)} : i \in Pos(g)}
SCCs(g) == g.sccs               \* the constructors store SCCsOf(g) in the system (computed once)
GroupEdge(g, C, D) == \E i \in C, j \in D : Edge(g, i, j)

(* ---- the relation a reported execution sequence must satisfy.            *)
(* seq: sequence of stages; a stage: sequence of groups; a group: sequence  *)
(* of positions.                                                            *)
GroupAt(seq) == UNION {{<<s, k>> : k \in 1..Len(seq[s])} : s \in 1..Len(seq)}
Grp(seq, sk) == seq[sk[1]][sk[2]]
Occurrences(seq, i) ==
  Sum(GroupAt(seq), [sk \in GroupAt(seq) |-> Cardinality({m \in 1..Len(Grp(seq, sk)) : Grp(seq, sk)[m] = i})])
WellFormed(g, seq) ==           \* only positions of g
  \A sk \in GroupAt(seq) : ToSet(Grp(seq, sk)) \subseteq Pos(g)
Once(g, seq) ==                 \* every discipline exactly once
  \A i \in Pos(g) : Occurrences(seq, i) = 1
GroupsAreSCCs(g, seq) ==        \* mutually dependent disciplines, and only those, are grouped
  {ToSet(Grp(seq, sk)) : sk \in GroupAt(seq)} = SCCs(g)
ListingOrder(g, seq) ==         \* inside a group: the order of the user's list
  \A sk \in GroupAt(seq) : \A a, b \in 1..Len(Grp(seq, sk)) : (a < b) => (Grp(seq, sk)[a] < Grp(seq, sk)[b])
Precedence(g, seq) ==           \* a group comes strictly after every group producing one of its inputs
  \A sk, tl \in GroupAt(seq) :
     (sk # tl /\ GroupEdge(g, ToSet(Grp(seq, sk)), ToSet(Grp(seq, tl)))) => (sk[1] < tl[1])
ValidSequence(g, seq) ==
  /\ WellFormed(g, seq) /\ Once(g, seq) /\ GroupsAreSCCs(g, seq)
  /\ ListingOrder(g, seq) /\ Precedence(g, seq)

(* ---- coupling sets, as documented by CouplingStructure                   *)
GIn(g, C) == UNION {g.ins[i] : i \in C}
GOut(g, C) == UNION {g.outs[i] : i \in C}
AllC(g) == GIn(g, Pos(g)) \cap GOut(g, Pos(g))
StrongGroups(g) == {C \in SCCs(g) : Cardinality(C) >= 2 \/ \E i \in C : SelfCoupled(g, i)}
StrongDiscs(g) == UNION StrongGroups(g)
WeakDiscs(g) == Pos(g) \ StrongDiscs(g)
StrongC(g) == UNION {GIn(g, C) \cap GOut(g, C) : C \in StrongGroups(g)}
WeakC(g) == GOut(g, WeakDiscs(g))

---------------------------------------------------------------------------------
(* the integer data-flow system carried by g and its simultaneous solution *)
Names(g) == GIn(g, Pos(g)) \cup GOut(g, Pos(g))
Prod(g, v) == {p \in Pos(g) : v \in g.outs[p]}
Consistent(g) == \A v \in Names(g) : Cardinality(Prod(g, v)) <= 1
FreeNames(g) == {v \in Names(g) : Prod(g, v) = {}}
InSum(g, p, val) == Sum(g.ins[p], [k \in g.ins[p] |-> g.w[p][k] * val[k]])
RunDisc(g, p, val) ==           \* outputs of discipline p executed on the data val
  LET s == InSum(g, p, val) IN TLCEval([v \in g.outs[p] |-> s + g.c[p][v]])
Step(g, val) ==                 \* every discipline executed at once on val
  LET S == TLCEval([p \in Pos(g) |-> InSum(g, p, val)])
  IN TLCEval([v \in DOMAIN val |-> IF g.prod[v] = {} THEN val[v]
                                   ELSE LET p == CHOOSE p \in g.prod[v] : TRUE IN S[p] + g.c[p][v]])
RECURSIVE Iter(_, _, _)
Iter(g, val, k) == IF k = 0 THEN val ELSE Iter(g, Step(g, val), k - 1)
Mono(g) == Iter(g, g.x0, g.n + 1)
OtherGuess(g) == [v \in DOMAIN g.x0 |-> IF g.prod[v] = {} THEN g.x0[v] ELSE 7]

(* sequential composition (MDOChain._execute): data.update(d.execute(data)) *)
Update(val, out) == TLCEval([v \in DOMAIN val |-> IF v \in DOMAIN out THEN out[v] ELSE val[v]])
   \* (TLCEval: TLC would otherwise keep the function unevaluated and re-evaluate it at every application)
RECURSIVE ChainEval(_, _, _)
ChainEval(g, ps, val) ==
  IF ps = <<>> THEN val ELSE ChainEval(g, Tail(ps), Update(val, RunDisc(g, Head(ps), val)))
RECURSIVE Repeat(_, _, _, _)
Repeat(g, ps, val, k) == IF k = 0 THEN val ELSE Repeat(g, ps, ChainEval(g, ps, val), k - 1)
(* a group: one execution if it is a weakly coupled discipline, otherwise  *)
(* a fixed-point loop (Gauss-Seidel sweeps; nilpotent: Len+1 sweeps reach  *)
(* the fixed point from any guess)                                         *)
GroupEval(g, grp, val) ==
  IF Len(grp) = 1 /\ ~SelfCoupled(g, grp[1]) THEN ChainEval(g, grp, val)
  ELSE Repeat(g, grp, val, Len(grp) + 1)
RECURSIVE GroupsEval(_, _, _)
GroupsEval(g, grps, val) ==
  IF grps = <<>> THEN val ELSE GroupsEval(g, Tail(grps), GroupEval(g, Head(grps), val))
RECURSIVE SeqEval(_, _, _)      \* stage after stage, groups of a stage one after the other
SeqEval(g, seq, val) ==
  IF seq = <<>> THEN val ELSE SeqEval(g, Tail(seq), GroupsEval(g, Head(seq), val))
RECURSIVE MergeAll(_, _, _, _)
MergeAll(g, grps, val0, acc) == \* every group of a stage on the SAME data, results merged
  IF grps = <<>> THEN acc
  ELSE LET r == GroupEval(g, Head(grps), val0)
           outs == GOut(g, ToSet(Head(grps)))
       IN MergeAll(g, Tail(grps), val0, TLCEval([v \in DOMAIN acc |-> IF v \in outs THEN r[v] ELSE acc[v]]))
RECURSIVE ParEval(_, _, _)      \* stages in parallel (MDOParallelChain per stage)
ParEval(g, seq, val) ==
  IF seq = <<>> THEN val ELSE ParEval(g, Tail(seq), MergeAll(g, Head(seq), val, val))

(* the order in which the disciplines are actually run (a log of positions) *)
(* respects the dependencies: every discipline runs, and every run of a     *)
(* producer precedes every run of a consumer that is not mutually dependent *)
(* with it (members of a group may be run repeatedly, in any order)         *)
OrderedLog(g, log) ==
  \A a, b \in 1..Len(log) :
        (Edge(g, log[b], log[a]) /\ ~\E C \in SCCs(g) : {log[a], log[b]} \subseteq C) => (b < a)
RespectsDependencies(g, log) == ToSet(log) = Pos(g) /\ OrderedLog(g, log)
(* the data a chain over the positions ps needs from outside / provides     *)
RECURSIVE ChainInputs(_, _, _)
ChainInputs(g, ps, made) ==
  IF ps = <<>> THEN {} ELSE (g.ins[Head(ps)] \ made) \cup ChainInputs(g, Tail(ps), made \cup g.outs[Head(ps)])
(* the labelled dependency graph: one edge per ordered pair exchanging data *)
LabelledEdges(g) == {<<e[1], e[2], g.outs[e[1]] \cap g.ins[e[2]]>> : e \in EdgeRel(g)}

(* MDOInitializationChain: an order in which every discipline finds its    *)
(* inputs among the defaults (here: the free names) and earlier outputs    *)
RECURSIVE Avail(_, _, _)
Avail(g, ord, k) == IF k = 0 THEN FreeNames(g) ELSE Avail(g, ord, k - 1) \cup g.outs[ord[k]]
ValidInitOrder(g, ord) ==
  /\ Len(ord) = g.n /\ ToSet(ord) = Pos(g)
  /\ \A k \in 1..Len(ord) : g.ins[ord[k]] \subseteq Avail(g, ord, k - 1)
RECURSIVE AvailFrom(_, _, _, _) \* the same with default values for the names a0 only
AvailFrom(g, ord, k, a0) == IF k = 0 THEN a0 ELSE AvailFrom(g, ord, k - 1, a0) \cup g.outs[ord[k]]
ValidInitOrderFrom(g, ord, a0) ==
  /\ Len(ord) = g.n /\ ToSet(ord) = Pos(g)
  /\ \A k \in 1..Len(ord) : g.ins[ord[k]] \subseteq AvailFrom(g, ord, k - 1, a0)
(* the greedy construction of order_disciplines_from_default_inputs        *)
RECURSIVE GreedyRound(_, _, _, _)
GreedyRound(g, todo, avail, taken) ==  \* one pass over the remaining disciplines, in listing order
  IF todo = <<>> THEN [avail |-> avail, taken |-> taken]
  ELSE IF g.ins[Head(todo)] \subseteq avail
       THEN GreedyRound(g, Tail(todo), avail \cup g.outs[Head(todo)], Append(taken, Head(todo)))
       ELSE GreedyRound(g, Tail(todo), avail, taken)
RECURSIVE Greedy(_, _, _, _)
Greedy(g, remaining, avail, done) ==
  IF remaining = {} THEN [ok |-> TRUE, ord |-> done]
  ELSE LET r == GreedyRound(g, SortedSeq(remaining), avail, <<>>)
       IN IF r.taken = <<>> THEN [ok |-> FALSE, ord |-> done]
          ELSE Greedy(g, remaining \ ToSet(r.taken), r.avail, done \o r.taken)
InitResult(g) == Greedy(g, Pos(g), FreeNames(g), <<>>)
Acyclic(g) == StrongGroups(g) = {}      \* no cycle, no self-coupling
AllSingletons(g) == \A C \in SCCs(g) : Cardinality(C) = 1
Flatten(seq) == LET RECURSIVE F(_)
                    F(s) == IF s = <<>> THEN <<>>
                            ELSE LET RECURSIVE G(_)
                                     G(gs) == IF gs = <<>> THEN <<>> ELSE Head(gs) \o G(Tail(gs))
                                 IN G(Head(s)) \o F(Tail(s))
                IN F(seq)

---------------------------------------------------------------------------------
(* MDAChain: how the execution sequence becomes sub-processes, under the options *)
(* of MDAChain_Settings.                                                         *)
(*   a group gets an inner MDA iff it has >= 2 members or is a self-coupled      *)
(*   singleton; every other group is the discipline itself;                      *)
(*   a stage with several tasks is an MDOChain of them, or an MDOParallelChain   *)
(*   (mdachain_parallelize_tasks);                                               *)
(*   sub_coupling_structures: one structure per inner MDA, in sequence order:    *)
(*   the k-th structure belongs to the k-th group that gets an inner MDA.        *)
NeedsMDA(g, grp) == Len(grp) >= 2 \/ (Len(grp) = 1 /\ SelfCoupled(g, grp[1]))
RECURSIVE GroupList(_)          \* the groups of a sequence, stage after stage
GroupList(seq) == IF seq = <<>> THEN <<>> ELSE Head(seq) \o GroupList(Tail(seq))
MDAGroups(g, seq) == SelectSeq(GroupList(seq), LAMBDA grp : NeedsMDA(g, grp))
(* what the user passes as sub_coupling_structures: CouplingStructure(group) for   *)
(* each group that needs an MDA (here: its set of positions)                     *)
UserStructures(g, seq) == [k \in 1..Len(MDAGroups(g, seq)) |-> ToSet(MDAGroups(g, seq)[k])]
(* the inner MDAs of the chain: members and the disciplines of the coupling       *)
(* structure each one works with                                                 *)
InnerMDAPlan(g, seq, sub) ==
  [k \in 1..Len(MDAGroups(g, seq)) |->
     [members |-> MDAGroups(g, seq)[k],
      structure |-> IF sub = "user" THEN UserStructures(g, seq)[k] ELSE ToSet(MDAGroups(g, seq)[k])]]

InnerNames == <<"MDAJacobi", "MDAGaussSeidel", "MDANewtonRaphson", "MDAQuasiNewton", "MDAGSNewton">>
SubModes == <<"none", "user">>
InitModes == <<"off", "full", "guess">>
   \* initialize_defaults: off; on with default values for every name; on with default values for the
   \* free names and the strong couplings only (the "eventually missing" ones are computed)
MDAOptionSpaceP(ninner) ==
  [inner : {InnerNames[k] : k \in 1..ninner}, sub : ToSet(SubModes), cs : BOOLEAN, par : BOOLEAN, lin : BOOLEAN,
   init : ToSet(InitModes), np : {1, 2}]
   \* cs: coupling_structure given by the user; par: mdachain_parallelize_tasks; lin: chain_linearize;
   \* np: n_processes (threads) of the chain and of its inner MDAs
MDAOptionSpace == MDAOptionSpaceP(NInner)
SemanticOptions == [inner : {"MDAJacobi", "MDAGaussSeidel"}, par : BOOLEAN, init : ToSet(InitModes)]
   \* (the Newton-type classes return the fixed point of the group, like MDAGaussSeidel here)

GuessNames(g) == FreeNames(g) \cup StrongC(g)
Undefined == -99                \* a name without default value: whatever is read there must not matter
RECURSIVE JacobiRepeat(_, _, _, _)
JacobiRepeat(g, grp, val, k) ==  \* k Jacobi sweeps: every member on the same data, results merged
  IF k = 0 THEN val
  ELSE LET outs == [m \in 1..Len(grp) |-> RunDisc(g, grp[m], val)]
           nv == TLCEval([v \in DOMAIN val |->
                     IF \E m \in 1..Len(grp) : v \in g.outs[grp[m]]
                     THEN outs[CHOOSE m \in 1..Len(grp) : v \in g.outs[grp[m]]][v] ELSE val[v]])
       IN JacobiRepeat(g, grp, nv, k - 1)
TaskEval(g, grp, val, inner) ==  \* one task of a stage: the discipline, or the inner MDA of the group
  IF ~NeedsMDA(g, grp) THEN ChainEval(g, grp, val)
  ELSE IF inner = "MDAJacobi" THEN JacobiRepeat(g, grp, val, Len(grp) + 1)
  ELSE Repeat(g, grp, val, Len(grp) + 1)
RECURSIVE TasksSeq(_, _, _, _)
TasksSeq(g, grps, val, inner) ==
  IF grps = <<>> THEN val ELSE TasksSeq(g, Tail(grps), TaskEval(g, Head(grps), val, inner), inner)
RECURSIVE TasksPar(_, _, _, _, _)
TasksPar(g, grps, val0, acc, inner) ==
  IF grps = <<>> THEN acc
  ELSE LET r == TaskEval(g, Head(grps), val0, inner)
           outs == GOut(g, ToSet(Head(grps)))
       IN TasksPar(g, Tail(grps), val0, TLCEval([v \in DOMAIN acc |-> IF v \in outs THEN r[v] ELSE acc[v]]), inner)
RECURSIVE StagesEval(_, _, _, _)
StagesEval(g, seq, val, o) ==
  IF seq = <<>> THEN val
  ELSE StagesEval(g, Tail(seq),
                  (IF o.par /\ Len(Head(seq)) > 1 THEN TasksPar(g, Head(seq), val, val, o.inner)
                   ELSE TasksSeq(g, Head(seq), val, o.inner)), o)
DefaultsOf(g, avail) == [v \in DOMAIN g.x0 |-> IF v \in avail THEN g.x0[v] ELSE Undefined]
InitRuns(g) == g.n > 1 /\ StrongC(g) # {}       \* MDAChain.execute: when the initialization chain is used
StartData(g, o) ==
  LET avail == IF o.init = "guess" THEN GuessNames(g) ELSE Names(g)
  IN IF o.init = "off" \/ ~InitRuns(g) THEN DefaultsOf(g, avail)
     ELSE ChainEval(g, Greedy(g, Pos(g), avail, <<>>).ord, DefaultsOf(g, avail))
MDAChainEval(g, seq, o) == StagesEval(g, seq, StartData(g, o), o)
(* the log of an MDAChain run: when the initialization chain is used, one pass over the disciplines *)
(* in an order in which each one finds its inputs (the couplings are ignored there, as documented), *)
(* then - and otherwise from the start - an order that respects the dependencies (after the         *)
(* initialization pass a discipline whose inputs did not change is served by its cache: every       *)
(* discipline has run, the later runs are ordered)                                                  *)
ChainLogOK(g, log, init) ==
  IF init = "off" \/ ~InitRuns(g) THEN RespectsDependencies(g, log)
  ELSE /\ Len(log) >= g.n
       /\ ValidInitOrderFrom(g, SubSeq(log, 1, g.n), IF init = "guess" THEN GuessNames(g) ELSE Names(g))
       /\ OrderedLog(g, SubSeq(log, g.n + 1, Len(log)))

---------------------------------------------------------------------------------
(* instance constructors *)
(* b: [n, id, name, ins, outs]; cst[v], free[v]: integer constants attached to the names.          *)
(* Numeric layer: weight 1 everywhere except on the edges that close a cycle (inside a strongly    *)
(* connected component data flows numerically only from the lower to the higher id; a self-loop    *)
(* has weight 0); out = sum + 10*id + cst[v]; free inputs default to free[v], couplings to 0.      *)
Complete(b, cst, free) ==
  LET T == Reach(b)
      names == Names(b)
      prod == [v \in names |-> Prod(b, v)]
  IN [n |-> b.n, id |-> b.id, name |-> b.name, ins |-> b.ins, outs |-> b.outs,
      prod |-> prod,
      sccs |-> {{j \in Pos(b) : Mutual(T, i, j)} : i \in Pos(b)},
      w |-> [p \in Pos(b) |-> [v \in b.ins[p] |->
               IF \E q \in prod[v] : Mutual(T, q, p) /\ ~(b.id[q] < b.id[p]) THEN 0 ELSE 1]],
      c |-> [p \in Pos(b) |-> [v \in b.outs[p] |-> 10 * b.id[p] + cst[v]]],
      x0 |-> [v \in names |-> IF prod[v] # {} THEN 0 ELSE free[v]]]

(* family E: edge i -> j is the private variable v<i>_<j>; optional private input x<d>, output y<d> *)
MaxD == 5
VN == [i \in 1..MaxD |-> [j \in 1..MaxD |-> "v" \o ToString(i) \o "_" \o ToString(j)]]
XN == [i \in 1..MaxD |-> "x" \o ToString(i)]
YN == [i \in 1..MaxD |-> "y" \o ToString(i)]
DN == [i \in 1..MaxD |-> "D" \o ToString(i)]
ENames == {VN[i][j] : i, j \in 1..MaxD} \cup {XN[i] : i \in 1..MaxD} \cup {YN[i] : i \in 1..MaxD}
ECst == [v \in ENames |-> IF \E i, j \in 1..MaxD : v = VN[i][j]
                          THEN CHOOSE j \in 1..MaxD : \E i \in 1..MaxD : v = VN[i][j] ELSE 0]
EFree == [v \in ENames |-> IF \E i \in 1..MaxD : v = XN[i] THEN CHOOSE i \in 1..MaxD : v = XN[i] ELSE 0]
InstE(n, adj, order, priv, dup) ==
  LET insOf(d) == {VN[k][d] : k \in {kk \in 1..n : <<kk, d>> \in adj}} \cup (IF priv THEN {XN[d]} ELSE {})
      outsOf(d) == {VN[d][j] : j \in {jj \in 1..n : <<d, jj>> \in adj}} \cup (IF priv THEN {YN[d]} ELSE {})
  IN Complete([n |-> n, id |-> order,
               name |-> [p \in 1..n |-> IF dup THEN "D" ELSE DN[order[p]]],
               ins |-> [p \in 1..n |-> insOf(order[p])],
               outs |-> [p \in 1..n |-> outsOf(order[p])]], ECst, EFree)

(* family N: arbitrary input/output name sets over the first UK names *)
UNames == <<"a", "b", "c", "d">>
Universe == SubSeq(UNames, 1, UK)
UTab == [v \in ToSet(UNames) |-> CHOOSE k \in 1..Len(UNames) : UNames[k] = v]
InstN(n, ins, outs) ==
  Complete([n |-> n, id |-> [p \in 1..n |-> p], name |-> [p \in 1..n |-> DN[p]], ins |-> ins, outs |-> outs],
           UTab, UTab)

(* enumeration: an instance is a number k whose bits are the adjacency matrix (family E) or the    *)
(* membership of each name in each input/output set (family N); the sample filter is evaluated on  *)
(* the number, the instance is decoded only when kept                                               *)
Pairs(n) == (1..n) \X (1..n)
Bit(k, b) == (k \div (2 ^ b)) % 2 = 1
AdjOf(n, k) == {e \in Pairs(n) : Bit(k, (e[1] - 1) * n + (e[2] - 1))}
NoLoop(n, k) == \A d \in 1..n : ~Bit(k, (d - 1) * n + (d - 1))
Perms(n) == {f \in [1..n -> 1..n] : \A i, j \in 1..n : (i # j) => (f[i] # f[j])}
Rot(n, k) == [p \in 1..n |-> ((p + k - 1) % n) + 1]
Orders(n) == IF OrderMode = "all" THEN Perms(n)
             ELSE IF OrderMode = "rot" THEN {Rot(n, k) : k \in 0..(n - 1)} ELSE {Rot(n, 0)}
OrdCode(n, order) == Sum(1..n, [p \in 1..n |-> order[p] * (4 ^ (p - 1))])
Sampled(h) == (SampleMod = 1) \/ ((h + SampleKey) % SampleMod = 0)
Codes(bits) ==                  \* the instance numbers enumerated
  IF Pick = 0 THEN 0..((2 ^ bits) - 1)
  ELSE LET hi == bits \div 2  lo == bits - (bits \div 2)
       IN {((j * 2731 + SampleKey) % (2 ^ hi)) * (2 ^ lo) + ((j * 3571 + 7 * SampleKey) % (2 ^ lo)) : j \in 1..Pick}
KeepE(n, k, oc, priv, dup) ==
  /\ (LoopMode = "all") \/ NoLoop(n, k)
  /\ Sampled(31 * k + 7 * oc + (IF priv THEN 3 ELSE 0) + (IF dup THEN 5 ELSE 0))
U == ToSet(Universe)
InsOf(n, k) == [p \in 1..n |-> {Universe[i] : i \in {i \in 1..UK : Bit(k, (p - 1) * 2 * UK + (i - 1))}}]
OutsOf(n, k) == [p \in 1..n |-> {Universe[i] : i \in {i \in 1..UK : Bit(k, (p - 1) * 2 * UK + UK + (i - 1))}}]

(* the MDAChain options run on an instance: a pseudo-random part of the option space, different from *)
(* one instance to the next (the instance hash scrambles the option index modulo a prime)           *)
Idx(s, x) == CHOOSE k \in 1..Len(s) : s[k] = x
B2I(b) == IF b THEN 1 ELSE 0
OptIndex(o) ==
  (Idx(InnerNames, o.inner) - 1) + 5 * ((Idx(SubModes, o.sub) - 1) + 2 * (B2I(o.cs) + 2 * (B2I(o.par) + 2 * (B2I(o.lin)
     + 2 * ((Idx(InitModes, o.init) - 1) + 3 * (o.np - 1))))))
SetCode(S) == Sum(S, [v \in S |-> 2 ^ (UTab[v] - 1)])
CodeHash(cd) ==
  IF cd.fam = "E"
  THEN 31 * Sum(cd.adj, [e \in cd.adj |-> 2 ^ ((e[1] - 1) * cd.n + (e[2] - 1))]) + 7 * OrdCode(cd.n, cd.order)
       + (IF cd.priv THEN 3 ELSE 0) + (IF cd.dup THEN 5 ELSE 0)
  ELSE Sum(1..cd.n, [p \in 1..cd.n |-> (SetCode(cd.ins[p]) + 16 * SetCode(cd.outs[p])) * (256 ^ (p - 1))])
(* on a system without inner MDA the options inner, sub, np have no object *)
Canon(gg, o) == IF StrongGroups(gg) = {} THEN [o EXCEPT !.inner = InnerNames[1], !.sub = "none", !.np = 1] ELSE o
SelectedOptionsP(gg, cd, optmod, ninner, key) ==
  IF optmod = 0 \/ ~Consistent(gg) THEN {}
  ELSE LET h == (CodeHash(cd) + 17 * key) % 1009
       IN {Canon(gg, o) : o \in {oo \in MDAOptionSpaceP(ninner) : (((OptIndex(oo) + 1) * 389 + h) % 1009) % optmod = 0}}
SelectedOptions(gg, cd) == SelectedOptionsP(gg, cd, OptMod, NInner, SampleKey)

---------------------------------------------------------------------------------
(* The construction of DependencyGraph.get_execution_sequence, step by step *)
VARIABLES code,    \* the instance as enumerated (constant along a behaviour)
          g,       \* the system built from it
          pc,      \* "new" -> "start" -> "peel" -> "done" (-> "emitted")
          cond,    \* nodes of the condensation not yet removed (sets of positions)
          stages   \* the lists of parallel tasks built so far
vars == <<code, g, pc, cond, stages>>

Blank == [n |-> 0, id |-> <<>>, name |-> <<>>, ins |-> <<>>, outs |-> <<>>, prod |-> <<>>, sccs |-> {}, w |-> <<>>,
          c |-> <<>>,
          x0 |-> <<>>]
Decode(cd) == IF cd.fam = "E" THEN InstE(cd.n, cd.adj, cd.order, cd.priv, cd.dup)
              ELSE InstN(cd.n, cd.ins, cd.outs)

Init ==
  /\ pc = "new" /\ cond = {} /\ stages = <<>> /\ g = Blank
  /\ \/ /\ Fam = "E"
        /\ \E n \in NMin..NMax : \E order \in Orders(n) : \E priv \in Privs : \E dup \in Dups :
           LET oc == OrdCode(n, order) IN
           \E k \in Codes(n * n) :
             /\ KeepE(n, k, oc, priv, dup)
             /\ code = [fam |-> "E", n |-> n, adj |-> AdjOf(n, k), order |-> order, priv |-> priv, dup |-> dup]
     \/ /\ Fam = "N"
        /\ \E n \in NMin..NMax : \E k \in Codes(2 * UK * n) :
             /\ Sampled(k)
             /\ code = [fam |-> "N", n |-> n, ins |-> InsOf(n, k), outs |-> OutsOf(n, k)]

Build ==                        \* the disciplines are created from the enumerated instance
  /\ pc = "new"
  /\ g' = Decode(code)
  /\ pc' = "start"
  /\ UNCHANGED <<code, cond, stages>>

Condense ==                     \* condensation(graph, scc=ordered scc)
  /\ pc = "start"
  /\ cond' = SCCs(g)
  /\ pc' = "peel"
  /\ UNCHANGED <<code, g, stages>>

Leaves(nodes) == {C \in nodes : ~\E D \in nodes \ {C} : GroupEdge(g, C, D)}
StageOf(nodes) ==               \* the groups of a stage; members in listing order (__get_ordered_scc)
  LET RECURSIVE S(_)
      S(rest) == IF rest = {} THEN <<>>
                 ELSE LET C == CHOOSE C \in rest : \A D \in rest : Min(C) <= Min(D)
                      IN <<SortedSeq(C)>> \o S(rest \ {C})
  IN S(nodes)

Peel ==                         \* while True: leaves = ...; if not leaves: break; ...remove_nodes_from
  /\ pc = "peel" /\ Leaves(cond) # {}
  /\ stages' = Append(stages, StageOf(Leaves(cond)))
  /\ cond' = cond \ Leaves(cond)
  /\ UNCHANGED <<code, g, pc>>

Reverse ==                      \* return list(reversed(execution_sequence))
  /\ pc = "peel" /\ Leaves(cond) = {}
  /\ stages' = Rev(stages)
  /\ pc' = "done"
  /\ UNCHANGED <<code, g, cond>>

Expected ==                     \* what the specification says about this instance
  [consistent |-> Consistent(g),
   singletons |-> AllSingletons(g),
   acyclic |-> Acyclic(g),
   free |-> FreeNames(g),
   guess |-> GuessNames(g),
   sgroups |-> StrongGroups(g),
   opts |-> SelectedOptions(g, code),
   mono |-> IF Consistent(g) THEN Mono(g) ELSE <<>>]
System == [n |-> g.n, name |-> g.name, ins |-> g.ins, outs |-> g.outs, w |-> g.w, c |-> g.c, x0 |-> g.x0]

EmitCase ==
  /\ Emit /\ pc = "done"
  /\ PrintT(<<"CASE", code, System, Expected>>)
  /\ pc' = "emitted"
  /\ UNCHANGED <<code, g, cond, stages>>

Next == Build \/ Condense \/ Peel \/ Reverse \/ EmitCase
Spec == Init /\ [][Next]_vars

---------------------------------------------------------------------------------
(* properties of the construction and of the definitions (design level) *)
Finished == pc \in {"done", "emitted"}
PeeledGroups == {sk \in GroupAt(stages) : TRUE}

SCCPartition ==                 \* the strongly connected components partition the disciplines
  (pc = "start") =>
  /\ g.sccs = SCCsOf(g)
  /\ UNION SCCs(g) = Pos(g)
  /\ \A C, D \in SCCs(g) : (C # D) => (C \cap D = {})
  /\ {} \notin SCCs(g)

CondensationAcyclic ==          \* the loop never stops with nodes left: a non-empty condensation has a leaf
  (pc = "peel" /\ cond # {}) => (Leaves(cond) # {})

PeelInv ==                      \* while peeling: every successor of a peeled group was peeled in an earlier round
  (pc = "peel") =>
     /\ \A sk \in GroupAt(stages) : \A D \in SCCs(g) :
          (D # ToSet(Grp(stages, sk)) /\ GroupEdge(g, ToSet(Grp(stages, sk)), D)) =>
             (\E tl \in GroupAt(stages) : ToSet(Grp(stages, tl)) = D /\ tl[1] < sk[1])
     /\ {ToSet(Grp(stages, sk)) : sk \in GroupAt(stages)} \cup cond = SCCs(g)

ConstructionValid ==            \* the theorem: peel the leaves and reverse is a valid schedule
  (pc = "done") => ValidSequence(g, stages)

ScheduleRespectsDependencies == \* running the groups stage by stage is an admissible execution order
  (pc = "done") => RespectsDependencies(g, Flatten(stages))

NoEmptyStage == (pc = "done") => \A s \in 1..Len(stages) : stages[s] # <<>>

CouplingFacts ==
  (pc = "start") =>
  /\ StrongC(g) \subseteq AllC(g)
  /\ Consistent(g) => (StrongC(g) \cap WeakC(g) = {})
  /\ StrongDiscs(g) \cup WeakDiscs(g) = Pos(g)

Nilpotent ==                    \* the numeric layer has a unique simultaneous solution, reached from any guess
  (pc = "start" /\ Consistent(g)) =>
     LET m == Mono(g) IN
     /\ Step(g, m) = m
     /\ Iter(g, OtherGuess(g), g.n + 1) = m
     /\ \A v \in FreeNames(g) : m[v] = g.x0[v]

CompositionTheorem ==           \* executing any valid schedule reproduces the simultaneous solution
  (pc = "done" /\ Consistent(g)) =>
     LET m == Mono(g) IN
     /\ SeqEval(g, stages, g.x0) = m
     /\ SeqEval(g, stages, OtherGuess(g)) = m
     /\ ParEval(g, stages, g.x0) = m
     /\ (AllSingletons(g) => (ChainEval(g, Flatten(stages), g.x0) = m))

InitChainTheorem ==             \* the greedy initialization succeeds exactly on acyclic systems, with a valid order
  (pc = "done") =>
  LET r == InitResult(g) IN
  /\ Consistent(g) => (r.ok = Acyclic(g))
  /\ Acyclic(g) => r.ok
  /\ r.ok => ValidInitOrder(g, r.ord)
  /\ (r.ok /\ Consistent(g)) => (ChainEval(g, r.ord, g.x0) = Mono(g))
  /\ (~r.ok) => ~\E ord \in Perms(g.n) : ValidInitOrder(g, ord)

MDAGroupsTheorem ==             \* which groups get an inner MDA; whose structure the k-th user structure is
  (pc = "done") =>
  LET M == MDAGroups(g, stages) IN
  /\ {ToSet(M[k]) : k \in 1..Len(M)} = StrongGroups(g)
  /\ Len(M) = Cardinality(StrongGroups(g))
  /\ \A sub \in ToSet(SubModes) : \A k \in 1..Len(M) :
        InnerMDAPlan(g, stages, sub)[k].structure = ToSet(InnerMDAPlan(g, stages, sub)[k].members)

InitDefaultsTheorem ==          \* guesses for the strong couplings are enough for the initialization chain
  (pc = "done" /\ Consistent(g)) =>
  LET r == Greedy(g, Pos(g), GuessNames(g), <<>>) IN r.ok /\ ValidInitOrderFrom(g, r.ord, GuessNames(g))

MDAChainOptionsTheorem ==       \* every option combination returns the simultaneous solution
  (pc = "done" /\ Consistent(g)) =>
  LET m == Mono(g) IN \A o \in SemanticOptions : MDAChainEval(g, stages, o) = m

Depth == TLCGet("level") <= 12     \* a behaviour has at most MaxD + 5 states
================================================================================
