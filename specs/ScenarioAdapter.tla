---------------------------- MODULE ScenarioAdapter ----------------------------
(* G04 (specification growth) - life cycle of a scenario executed repeatedly, directly      *)
(* (BaseScenario.execute) and through MDOScenarioAdapter.                                   *)
(*                                                                                          *)
(* The inner problem: one design variable x in [0, 3], one parameter a of the discipline    *)
(* (an input of the adapter), objective y = F(x, a) = (3x - 3a - 1)^2 to minimise.  Design  *)
(* values are counted in THIRDS (x3 = 3x) so that everything is an integer: the continuous  *)
(* minimiser is x3 = 3a + 1, and F has no ties on the lattice for a given a.                *)
(*                                                                                          *)
(* The optimizer is NOT modelled.  An inner run is abstracted as an environment that        *)
(* evaluates some points and returns the best one among those recorded:                     *)
(*   kind "doe": the points are the samples the caller scripted (one of AllMenus); the  *)
(*               database records them in order, one entry per distinct x; a point that is  *)
(*               already in the database is NOT re-evaluated (the database is keyed by x    *)
(*               only: its old value is served, whatever a was then);                       *)
(*   kind "opt": the first point evaluated is the start point (current value of the design  *)
(*               space), the run ends at the continuous minimiser; the rest of the history  *)
(*               is left unspecified (partial = TRUE).                                      *)
(* The result of a run is the best entry of the WHOLE database (first one on ties), the     *)
(* design space is left at that point.                                                      *)
(*                                                                                          *)
(* One action = one public call:                                                            *)
(*   ExecuteAdapter(a, xin, m)  adapter.execute({a, [x]}) with the algorithm settings m     *)
(*   RunScenario(m)             scenario.execute() by the user, defaults as they are        *)
(*   SetCurrent(v)              design_space.set_current_value (user)                       *)
(*   SetClear(b), SetDefault(a) scenario.clear_history_before_execute = b ; the default of  *)
(*                              the discipline input a (user; mode "scenario" only)         *)
(* mode "adapter": the adapter exists (its constructor sets clear_history_before_execute);  *)
(* mode "scenario": no adapter, the flag is the BaseScenario default FALSE.                 *)
(* policy: "warm" (neither option), "reset" (reset_x0_before_opt), "set" (set_x0_before_opt *)
(* with x among the adapter inputs).  keep = keep_opt_history.  cached = the adapter has   *)
(* its default SimpleCache (FALSE: set_cache(NONE)).                                        *)
EXTENDS Naturals, Sequences, FiniteSets, TLC

CONSTANTS Modes,     \* subset of {"adapter", "scenario"}
          Kinds,     \* subset of {"doe", "opt"}
          Policies,  \* subset of {"warm", "reset", "set"}
          Keeps,     \* subset of BOOLEAN
          Cacheds,   \* subset of BOOLEAN: the adapter keeps its default SimpleCache / has no cache
          As,        \* values of the parameter a, subset of 0..2
          Xs,        \* lattice values of x for SetCurrent / the x input of "set", subset of 0..3
          MenuIds,   \* which scripted sample sequences of AllMenus the "doe" kind may use
          X0,        \* initial current value of x when the scenario is created (0..3)
          MaxSteps   \* bound on the length of a behaviour

ASSUME /\ Modes \subseteq {"adapter", "scenario"} /\ Kinds \subseteq {"doe", "opt"}
       /\ Policies \subseteq {"warm", "reset", "set"} /\ Keeps \subseteq BOOLEAN /\ Cacheds \subseteq BOOLEAN
       /\ As \subseteq 0..2 /\ Xs \subseteq 0..3 /\ X0 \in 0..3 /\ 0 \in As

\* the catalogue of scripted sample sequences (lattice values of x); 0 stands for "nothing scripted"
AllMenus == << <<0, 2>>, <<2, 1>>, <<3>>, <<3, 0, 1>>, <<1, 1>>, <<2, 0>> >>
Menu(i)  == IF i = 0 THEN <<>> ELSE AllMenus[i]
ASSUME MenuIds \subseteq 1..Len(AllMenus)
ASSUME PrintT(<<"MENUS", AllMenus>>)      \* transported to the harness, which scripts the real DOE with them

F(x3, a) == LET d == IF x3 >= 3 * a + 1 THEN x3 - (3 * a + 1) ELSE (3 * a + 1) - x3 IN d * d
Entry(x3, a) == [x |-> x3, y |-> F(x3, a)]
NoOut  == [x |-> 0, y |-> 0, hit |-> FALSE, a |-> 0]
NoKey  == [a |-> 9, x |-> 9, m |-> <<>>]         \* empty adapter cache (9 is not a value of a / x)

VARIABLES mode, kind, policy, keep, cached,   \* configuration, chosen once
          cur,      \* current value of the design space, in thirds
          adef,     \* default value of the input a of the inner discipline
          clear,    \* scenario.clear_history_before_execute
          db,       \* the database of the inner problem: sequence of [x, y], one entry per x
          partial,  \* the database has more entries, left unspecified ("opt")
          stored,   \* adapter.databases: sequence of [db, partial]
          ckey,     \* the inputs of the last evaluation made by the adapter (what its SimpleCache keeps,
          cout,     \* if it has one) ... and its outputs
          out,      \* what the last ExecuteAdapter returned (x, y) / the result of RunScenario
          start,    \* the current value of the design space when the last inner run began
          nruns,    \* inner runs made on behalf of the adapter
          log,      \* ghost: one record per such run: inputs, settings, start point, outputs, database
          steps
cfgv == <<mode, kind, policy, keep, cached>>
vars == <<mode, kind, policy, keep, cached, cur, adef, clear, db, partial, stored, ckey, cout, out, start, nruns, log, steps>>

\* ---------------------------------------------------------------- the inner run
RECURSIVE Record(_, _, _)
\* evaluate the points of m in order against the database d under the parameter a
Record(d, m, a) ==
  IF m = <<>> THEN d
  ELSE LET x3 == 3 * Head(m)
           known == \E k \in 1..Len(d) : d[k].x = x3 IN
       Record(IF known THEN d ELSE Append(d, Entry(x3, a)), Tail(m), a)

\* the best entry of a database: the first one among those of least y
Best(d) == LET k == CHOOSE k \in 1..Len(d) :
                      /\ \A j \in 1..Len(d) : d[k].y <= d[j].y
                      /\ \A j \in 1..(k - 1) : d[j].y > d[k].y
           IN d[k]

\* the run of the inner scenario with settings m from the database d0, parameter a, start point s
RunFrom(d0, m, a, s) ==
  IF kind = "doe"
  THEN LET d == Record(d0, m, a) IN [db |-> d, partial |-> FALSE, best |-> Best(d)]
  ELSE [db |-> <<Entry(s, a)>>, partial |-> TRUE, best |-> Entry(3 * a + 1, a)]

Settings == IF kind = "doe" THEN MenuIds ELSE {0}

Init == /\ mode \in Modes /\ kind \in Kinds /\ policy \in Policies /\ keep \in Keeps /\ cached \in Cacheds
        /\ (mode = "scenario" => (policy = "warm" /\ keep = FALSE /\ kind = "doe" /\ cached))  \* no adapter: no options
        /\ cur = 3 * X0 /\ adef = 0 /\ clear = (mode = "adapter")
        /\ db = <<>> /\ partial = FALSE /\ stored = <<>> /\ ckey = NoKey /\ cout = NoOut
        /\ out = NoOut /\ start = 3 * X0 /\ nruns = 0 /\ log = <<>> /\ steps = 0

Step == steps < MaxSteps /\ steps' = steps + 1

(* adapter.execute({"a": a [, "x": xin]}):                                                  *)
(*   SimpleCache hit (same inputs as the last evaluation) -> the cached outputs, nothing    *)
(*   else happens (an adapter without cache runs every time);  otherwise  _pre_run: the default of a is overwritten, the design space  *)
(*   is reset to x0 (reset) or set from the inputs (set); the scenario clears its database  *)
(*   (clear_history_before_execute) and runs; _post_run: a copy of the database is kept     *)
(*   (keep_opt_history), the outputs are the optimum and the discipline outputs there.      *)
ExecuteAdapter(a, xin, mi) ==
  /\ mode = "adapter" /\ Step /\ mi \in Settings
  /\ (policy = "set" \/ xin = CHOOSE x \in Xs : TRUE)     \* x is an input of the adapter with "set" only
  /\ LET m == Menu(mi)
         key == [a |-> a, x |-> IF policy = "set" THEN xin ELSE 9, m |-> <<>>] IN
     IF cached /\ [ckey EXCEPT !.m = <<>>] = key
     THEN /\ out' = [cout EXCEPT !.hit = TRUE]
          /\ UNCHANGED <<cfgv, cur, adef, clear, db, partial, stored, ckey, cout, start, nruns, log>>
     ELSE LET s == CASE policy = "reset" -> 3 * X0
                     [] policy = "set"   -> 3 * xin
                     [] OTHER            -> cur
              r == RunFrom(IF clear THEN <<>> ELSE db, m, a, s)
              o == [x |-> r.best.x, y |-> F(r.best.x, a), hit |-> FALSE, a |-> a] IN
          /\ adef' = a /\ start' = s /\ db' = r.db /\ partial' = r.partial /\ cur' = r.best.x
          /\ stored' = (IF keep THEN Append(stored, [db |-> r.db, partial |-> r.partial]) ELSE stored)
          /\ out' = o /\ cout' = o /\ ckey' = [key EXCEPT !.m = m] /\ nruns' = nruns + 1
          /\ log' = Append(log, [key |-> [key EXCEPT !.m = m], start |-> s, x |-> o.x, y |-> o.y, db |-> r.db])
          /\ UNCHANGED <<cfgv, clear>>

(* scenario.execute() by the user: no reset of anything but the database (if the flag says so) *)
RunScenario(mi) ==
  /\ Step /\ mi \in Settings
  /\ LET m == Menu(mi)
         r == RunFrom(IF clear THEN <<>> ELSE db, m, adef, cur) IN
       /\ start' = cur /\ db' = r.db /\ partial' = r.partial /\ cur' = r.best.x
       /\ out' = [x |-> r.best.x, y |-> r.best.y, hit |-> FALSE, a |-> adef]
  /\ UNCHANGED <<cfgv, adef, clear, stored, ckey, cout, nruns, log>>

SetCurrent(v) == /\ Step /\ cur # 3 * v /\ cur' = 3 * v
                 /\ UNCHANGED <<cfgv, adef, clear, db, partial, stored, ckey, cout, out, start, nruns, log>>
SetClear(b)   == /\ mode = "scenario" /\ Step /\ clear # b /\ clear' = b
                 /\ UNCHANGED <<cfgv, cur, adef, db, partial, stored, ckey, cout, out, start, nruns, log>>
SetDefault(a) == /\ mode = "scenario" /\ Step /\ adef # a /\ adef' = a
                 /\ UNCHANGED <<cfgv, cur, clear, db, partial, stored, ckey, cout, out, start, nruns, log>>

Next == \/ \E a \in As, xin \in Xs, i \in 0..6 : ExecuteAdapter(a, xin, i)   \* (constant ranges: TLC keeps
        \/ \E i \in 0..6 : RunScenario(i)                                   \*  the action names)
        \/ \E v \in Xs : SetCurrent(v)
        \/ \E b \in BOOLEAN : SetClear(b)
        \/ \E a \in As : SetDefault(a)

Spec == Init /\ [][Next]_vars

\* for the graph handed to the conformance replay: the ghost history and the step counter are not part of
\* what the implementation holds (breadth-first search: a state is kept with its smallest step count)
ImplView == <<mode, kind, policy, keep, cached, cur, adef, clear, db, partial, stored, ckey, cout, out, start, nruns>>

------------------------------------------------------------------------------------------
TypeOK == /\ mode \in Modes /\ kind \in Kinds /\ policy \in Policies /\ keep \in Keeps /\ cached \in Cacheds
          /\ cur \in 0..9 /\ start \in 0..9 /\ adef \in As /\ clear \in BOOLEAN /\ partial \in BOOLEAN
          /\ \A k \in 1..Len(db) : db[k].x \in 0..9
          /\ nruns \in 0..MaxSteps /\ steps \in 0..MaxSteps

(* the database has one entry per point *)
DbKeyed == \A j, k \in 1..Len(db) : j # k => db[j].x # db[k].x

(* NO LEAK (adapter): whatever happened before, after an execution through the adapter every
   value of the database was computed with the parameter of THAT execution; the scenario keeps
   the flag the adapter set *)
NoLeak == mode = "adapter" => (clear /\ \A k \in 1..Len(db) : db[k].y = F(db[k].x, adef))

(* the outputs of an execution depend on its inputs (and on the settings of the inner algorithm)
   only - and on nothing that happened before: they are the best point of the history of that
   run, with the value of the objective THERE for THIS parameter *)
OutputsOfThisRun ==
  (mode = "adapter" /\ ckey # NoKey) =>
     /\ cout.a = ckey.a /\ cout.y = F(cout.x, ckey.a)
     /\ kind = "doe" => (/\ \E k \in 1..Len(ckey.m) : cout.x = 3 * ckey.m[k]
                         /\ \A k \in 1..Len(ckey.m) : F(3 * ckey.m[k], ckey.a) >= cout.y)
     /\ kind = "opt" => (cout.x = 3 * ckey.a + 1 /\ cout.y = 0)
     /\ out.hit => (cached /\ out.x = cout.x /\ out.y = cout.y)

(* keep_opt_history: one database per run made through the adapter, none otherwise *)
KeepCount == Len(stored) = (IF keep THEN nruns ELSE 0)
(* ... in order, never touched again *)
StoredImmutable == [][Len(stored') >= Len(stored) /\ SubSeq(stored', 1, Len(stored)) = stored]_vars
(* ... each of them the history of its own run only *)
StoredOwnRun == /\ Len(stored) <= Len(log)
                /\ \A k \in 1..Len(stored) : stored[k].db = log[k].db
                /\ \A k \in 1..Len(log) : \A j \in 1..Len(log[k].db) :
                      log[k].db[j].y = F(log[k].db[j].x, log[k].key.a)

(* the start point is what the options say; the design space is left at the optimum *)
StartPolicy == [][(nruns' = nruns + 1) =>
                    /\ (policy = "reset" => start' = 3 * X0)
                    /\ (policy = "set"   => start' = 3 * ckey'.x)
                    /\ (policy = "warm"  => start' = cur)
                    /\ cur' = out'.x]_vars
(* with reset / set the whole run - start point, recorded history, outputs - is a function of the
   inputs and settings only: any two executions with the same inputs and settings, whatever happened
   in between, give the same thing.  With neither option only the start point may differ. *)
Reproducible == \A j, k \in 1..Len(log) :
                   log[j].key = log[k].key =>
                      /\ log[j].x = log[k].x /\ log[j].y = log[k].y
                      /\ (policy # "warm" => (log[j].start = log[k].start /\ log[j].db = log[k].db))
                      /\ (kind = "doe" => log[j].db = log[k].db)

(* the hazard clear_history_before_execute exists for (mode "scenario": must be REFUTED by TLC):
   after a run, every value of the database is a value for the current parameter *)
NoStaleValues == \A k \in 1..Len(db) : db[k].y = F(db[k].x, adef)
NoStaleAfterRun == [][(\E i \in 0..6 : RunScenario(i)) => NoStaleValues']_vars
(* ... and it cannot happen as long as the flag is set *)
NoStaleIfClear == [][((\E i \in 0..6 : RunScenario(i)) /\ clear) => NoStaleValues']_vars
================================================================================
