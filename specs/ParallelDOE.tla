------------------------------ MODULE ParallelDOE ------------------------------
(***************************************************************************)
(* BaseDOELibrary._run with n_processes > 1 (base_doe_library.py):         *)
(*   PreSeed      database.store(sample, {}) for every sample, in order    *)
(*   Complete(i)  the executor's callback for task i (any completion order *)
(*                allowed by the pool, see ParallelExec): locked store of  *)
(*                what the evaluation of samples[i] produced               *)
(*   RemoveEmpty  database.remove_empty_entries()                          *)
(* against the sequential loop (evaluate in order, ValueError skips).      *)
(* Samples may contain duplicates; failure is a function of the point AND  *)
(* of the evaluation: the functions of the problem are evaluated in the    *)
(* order Evals (outputs, then Jacobians when eval_jac) and the evaluation  *)
(* number failAt[p] raises (0: none).  The sequential loop keeps what was  *)
(* evaluated before the failure (each function stores its own value); a    *)
(* sample whose first evaluation fails leaves no entry.  The database      *)
(* holds the Jacobians with respect to the design variables ("u"), also    *)
(* when the driver works in the normalized space (normalize chosen in      *)
(* Init).                                                                  *)
(* Two designs are refuted by TLC (non-vacuity):                           *)
(*   DropPartial = TRUE    a failing sample stores nothing                 *)
(*   WorkerJacobian = TRUE the callback stores the Jacobian the worker     *)
(*                         returns (w.r.t. the normalized variables, "n")  *)
(***************************************************************************)
EXTENDS Naturals, Sequences, FiniteSets, TLC
CONSTANTS N, Points, NWorkers,
          EvalJac,       \* eval_jac
          FailStages,    \* the possible values of failAt[p]: subset of 0..Len(Evals)
          DropPartial, WorkerJacobian
VARIABLES samples, failAt, normalize, db, pending, running, phase, order
vars == <<samples, failAt, normalize, db, pending, running, phase, order>>

Idx == 1..N
\* the stored names in evaluation order (objective, constraint, then their Jacobians)
Evals == IF EvalJac THEN <<"f", "c", "@f", "@c">> ELSE <<"f", "c">>
IsJac(name) == name \in {"@f", "@c"}
\* what the evaluation of point p stores before it stops
Stored(p) == {Evals[j] : j \in {x \in 1..Len(Evals) : failAt[p] = 0 \/ x < failAt[p]}}
Failed(p) == failAt[p] # 0
JSpace(names, sp) == IF \E x \in names : IsJac(x) THEN sp ELSE "-"

Has(d, p) == \E k \in 1..Len(d) : d[k].pt = p
\* store(p, names): a new entry at the end, or the union with the existing entry
Put(d, p, names, sp) ==
  IF Has(d, p)
  THEN [k \in 1..Len(d) |-> IF d[k].pt = p
                            THEN [d[k] EXCEPT !.names = @ \cup names,
                                              !.jspace = IF JSpace(names, sp) = "-" THEN @ ELSE JSpace(names, sp)]
                            ELSE d[k]]
  ELSE Append(d, [pt |-> p, names |-> names, jspace |-> JSpace(names, sp)])

\* the sequential loop: one entry per distinct sample that stored something, in order of first occurrence
RECURSIVE SeqRun(_, _)
SeqRun(k, d) == IF k > N THEN d
                ELSE SeqRun(k + 1, IF Stored(samples[k]) = {} THEN d
                                   ELSE Put(d, samples[k], Stored(samples[k]), "u"))
SeqDb == SeqRun(1, <<>>)

Init == /\ samples \in [Idx -> Points]
        /\ failAt \in [Points -> FailStages]
        /\ normalize \in BOOLEAN
        /\ db = <<>> /\ pending = Idx /\ running = {} /\ phase = "preseed" /\ order = <<>>

RECURSIVE Seed(_, _)
Seed(k, d) == IF k > N THEN d ELSE Seed(k + 1, Put(d, samples[k], {}, "u"))
PreSeed == /\ phase = "preseed" /\ db' = Seed(1, db) /\ phase' = "run"
           /\ UNCHANGED <<samples, failAt, normalize, pending, running, order>>

\* the pool takes tasks in index order, at most NWorkers at a time
Start(i) == /\ phase = "run" /\ i \in pending /\ i \notin running
            /\ Cardinality(running) < NWorkers
            /\ \A j \in pending \ running : i <= j
            /\ running' = running \cup {i}
            /\ UNCHANGED <<samples, failAt, normalize, db, pending, phase, order>>
Complete(i) ==
  /\ phase = "run" /\ i \in running
  /\ LET p == samples[i]
         names == IF DropPartial /\ Failed(p) THEN {} ELSE Stored(p)
         sp == IF WorkerJacobian /\ normalize THEN "n" ELSE "u"
     IN db' = (IF names = {} THEN db ELSE Put(db, p, names, sp))
  /\ pending' = pending \ {i} /\ running' = running \ {i}
  /\ order' = Append(order, i)
  /\ UNCHANGED <<samples, failAt, normalize, phase>>
RemoveEmpty == /\ phase = "run" /\ pending = {}
               /\ db' = SelectSeq(db, LAMBDA e : e.names # {})
               /\ phase' = "done"
               /\ UNCHANGED <<samples, failAt, normalize, pending, running, order>>
Next == PreSeed \/ (\E i \in Idx : Start(i) \/ Complete(i)) \/ RemoveEmpty
Spec == Init /\ [][Next]_vars /\ WF_vars(Next)

\* ---- C13 clause: the parallel DOE leaves the database of the sequential DOE
SameAsSequential == phase = "done" => db = SeqDb
\* the order of entries never depends on the completion order (pre-seeding fixes it)
OrderFixed == phase # "preseed" =>
   \A a, b \in 1..Len(db) : a < b =>
      (CHOOSE k \in Idx : samples[k] = db[a].pt /\ \A j \in Idx : samples[j] = db[a].pt => k <= j)
    < (CHOOSE k \in Idx : samples[k] = db[b].pt /\ \A j \in Idx : samples[j] = db[b].pt => k <= j)
Live == <>(phase = "done")
View == <<samples, failAt, normalize, db, pending, running, phase>>
Cases == phase = "done" => PrintT(<<"DOE", samples, failAt, normalize, order, db>>)
=============================================================================
