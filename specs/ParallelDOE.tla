------------------------------ MODULE ParallelDOE ------------------------------
(***************************************************************************)
(* BaseDOELibrary._run with n_processes > 1 (base_doe_library.py):         *)
(*   PreSeed      database.store(sample, {}) for every sample, in order    *)
(*   Complete(i)  the executor's callback for task i (any completion order *)
(*                allowed by the pool, see ParallelExec): locked store of  *)
(*                the outputs at samples[i]; a failing sample has no       *)
(*                callback                                                 *)
(*   RemoveEmpty  database.remove_empty_entries()                          *)
(* against the sequential loop (evaluate in order, ValueError skips).      *)
(* Samples may contain duplicates; failure is a function of the point.     *)
(***************************************************************************)
EXTENDS Naturals, Sequences, FiniteSets, TLC
CONSTANTS N, Points, NWorkers
VARIABLES samples, failPts, db, pending, running, phase, order
vars == <<samples, failPts, db, pending, running, phase, order>>

Idx == 1..N
Has(d, p) == \E k \in 1..Len(d) : d[k].pt = p
Put(d, p, filled) ==
  IF Has(d, p)
  THEN [k \in 1..Len(d) |-> IF d[k].pt = p THEN [d[k] EXCEPT !.filled = @ \/ filled] ELSE d[k]]
  ELSE Append(d, [pt |-> p, filled |-> filled])

\* the sequential loop: one entry per distinct non-failing sample, in order of first occurrence
RECURSIVE SeqRun(_, _)
SeqRun(k, d) == IF k > N THEN d
                ELSE SeqRun(k + 1, IF samples[k] \in failPts THEN d ELSE Put(d, samples[k], TRUE))
SeqDb == SeqRun(1, <<>>)

Init == /\ samples \in [Idx -> Points]
        /\ failPts \in SUBSET Points
        /\ db = <<>> /\ pending = Idx /\ running = {} /\ phase = "preseed" /\ order = <<>>

RECURSIVE Seed(_, _)
Seed(k, d) == IF k > N THEN d ELSE Seed(k + 1, Put(d, samples[k], FALSE))
PreSeed == /\ phase = "preseed" /\ db' = Seed(1, db) /\ phase' = "run"
           /\ UNCHANGED <<samples, failPts, pending, running, order>>

\* the pool takes tasks in index order, at most NWorkers at a time
Start(i) == /\ phase = "run" /\ i \in pending /\ i \notin running
            /\ Cardinality(running) < NWorkers
            /\ \A j \in pending \ running : i <= j
            /\ running' = running \cup {i}
            /\ UNCHANGED <<samples, failPts, db, pending, phase, order>>
Complete(i) == /\ phase = "run" /\ i \in running
               /\ db' = (IF samples[i] \in failPts THEN db ELSE Put(db, samples[i], TRUE))
               /\ pending' = pending \ {i} /\ running' = running \ {i}
               /\ order' = Append(order, i)
               /\ UNCHANGED <<samples, failPts, phase>>
RemoveEmpty == /\ phase = "run" /\ pending = {}
               /\ db' = SelectSeq(db, LAMBDA e : e.filled)
               /\ phase' = "done"
               /\ UNCHANGED <<samples, failPts, pending, running, order>>
Next == PreSeed \/ (\E i \in Idx : Start(i) \/ Complete(i)) \/ RemoveEmpty
Spec == Init /\ [][Next]_vars /\ WF_vars(Next)

\* ---- C13 clause: the parallel DOE leaves the database of the sequential DOE
SameAsSequential == phase = "done" => db = SeqDb
\* the order of entries never depends on the completion order (pre-seeding fixes it)
OrderFixed == phase # "preseed" =>
   \A a, b \in 1..Len(db) : a < b =>
      (CHOOSE k \in Idx : samples[k] = db[a].pt /\ \A j \in Idx : samples[j] = db[a].pt => k <= j)
    < (CHOOSE k \in Idx : samples[k] = db[b].pt /\ \A j \in Idx : samples[j] = db[b].pt => k <= j)
Live == <>(phase = "done")
View == <<samples, failPts, db, pending, running, phase>>
Cases == phase = "done" => PrintT(<<"DOE", samples, failPts, order, [k \in 1..Len(db) |-> db[k].pt]>>)
=============================================================================
