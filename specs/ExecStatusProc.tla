--------------------------- MODULE ExecStatusProc ---------------------------
(* Specification growth G01 (outside the listed properties).                  *)
(* Status, observers and statistics of monitored PROCESSES: two disciplines   *)
(* d1: x -> y, d2: y -> z (y = x, z = y) and the MDOChain c = [d1, d2], each   *)
(* with its own ExecutionStatus / ExecutionStatistics (no status propagation   *)
(* exists in the code: the chain's status brackets the statuses of the         *)
(* disciplines it executes) and its own SimpleCache, driven by the public      *)
(* calls execute / linearize / execution_status.value = s / is_enabled / the   *)
(* counters' setters.  The definitions of the automaton are those of           *)
(* ExecStatusDefs; this module adds what decides WHETHER the monitored body    *)
(* runs at all (base_discipline.py:335-377, discipline.py:156-252,789):        *)
(*   - a cache hit of execute() returns before any status / statistics;        *)
(*   - linearize() returns the available Jacobian without status / statistics  *)
(*     when execute() hit an entry that has a Jacobian (_has_jacobian and jac); *)
(*   - the chain linearizes its disciplines in reverse order with execute=False*)
(*     at the inputs they hold (chain.py:226-260).                             *)
(* The bodies of the harness disciplines raise on demand (f = <<process,       *)
(* "run"|"jac">> raises when reached) and advance a logical clock by 1 (_run)  *)
(* or 2 (_compute_jacobian) ticks, so durations are integers.                  *)
(* As in ExecStatus, the outputs of a call label the transition and `Dump`     *)
(* prints the labelled graph.                                                  *)
EXTENDS ExecStatusDefs

CONSTANTS
    Obs,         \* observers, all attached to the three processes at the start
    X,           \* input values (small naturals)
    UseCache,    \* TRUE: default SimpleCache everywhere; FALSE: set_cache(NONE)
    SetVals,     \* statuses the driver sets by hand (DisciplineAdapter sets DONE before each evaluation)
    SetProcs,    \* processes whose status the driver sets by hand
    CallProcs,   \* processes the driver executes / linearizes
    WithToggle, WithReset, WithLin, WithFailures,   \* families of actions enabled
    EnInit,      \* initial value of ExecutionStatistics.is_enabled
    MaxCnt

Leaves == {"d1", "d2"}
All == Leaves \cup {"c"}
NoX == -1
NoEntry == [x |-> NoX, out |-> FALSE, jac |-> FALSE]
NoFail == <<"none", "-">>

VARIABLES
    st, att, en, nx, nl, du,   \* as in ExecStatus, per process
    ent,     \* [All -> entry of the SimpleCache]: input, has outputs, has Jacobian
    io,      \* [Leaves -> X \cup {NoX}]: the input the discipline currently holds in io.data
    hj,      \* [Leaves -> BOOLEAN]: Discipline._has_jacobian
    jne,     \* [Leaves -> BOOLEAN]: Discipline.jac is not empty
    seen
vars == <<st, att, en, nx, nl, du, ent, io, hj, jne, seen>>

\* the chain's own _has_jacobian / jac / io matter inside a call only (linearize(execute=True) rewrites them
\* before reading them): they are fields of the world, not of the state
World == TLCEval(
         [st |-> st, att |-> att, en |-> en, nx |-> nx, nl |-> nl, du |-> du, emit |-> <<>>, t |-> 0,
          ent |-> ent,
          io  |-> [p \in All |-> IF p \in Leaves THEN io[p] ELSE NoX],
          hj  |-> [p \in All |-> IF p \in Leaves THEN hj[p] ELSE FALSE],
          jne |-> [p \in All |-> IF p \in Leaves THEN jne[p] ELSE FALSE]])
SeenOf(e, x, l, d) == TLCEval([p \in All |-> IF e THEN <<x[p], l[p], d[p]>> ELSE <<None, None, None>>])
StateOf(w) == [st |-> w.st, att |-> w.att, en |-> w.en, nx |-> w.nx, nl |-> w.nl, du |-> w.du,
               ent |-> w.ent, io |-> [p \in Leaves |-> w.io[p]], hj |-> [p \in Leaves |-> w.hj[p]],
               jne |-> [p \in Leaves |-> w.jne[p]], seen |-> SeenOf(w.en, w.nx, w.nl, w.du)]
Edge(call, r) == <<call, r.err, r.w.emit, StateOf(r.w)>>

Commit(r) ==
    /\ st' = r.w.st /\ att' = r.w.att /\ nx' = r.w.nx /\ nl' = r.w.nl /\ du' = r.w.du /\ en' = r.w.en
    /\ ent' = r.w.ent
    /\ io' = [p \in Leaves |-> r.w.io[p]] /\ hj' = [p \in Leaves |-> r.w.hj[p]]
    /\ jne' = [p \in Leaves |-> r.w.jne[p]]
    /\ seen' = SeenOf(en', nx', nl', du')

Init ==
    /\ st = [p \in All |-> "DONE"] /\ att = [p \in All |-> Obs] /\ en = EnInit
    /\ nx = [p \in All |-> 0] /\ nl = [p \in All |-> 0] /\ du = [p \in All |-> 0]
    /\ ent = [p \in All |-> NoEntry]
    /\ io = [p \in Leaves |-> NoX] /\ hj = [p \in Leaves |-> FALSE] /\ jne = [p \in Leaves |-> FALSE]
    /\ seen = SeenOf(EnInit, nx, nl, du)

-----------------------------------------------------------------------------
\* SimpleCache (simple_cache.py): one entry; data are stored under their own input
Hit(w, p, x) == UseCache /\ w.ent[p].x = x /\ w.ent[p].out
StoreOut(e, x) == IF e.x = x THEN [e EXCEPT !.out = TRUE] ELSE [x |-> x, out |-> TRUE, jac |-> FALSE]
StoreJac(e, x) == IF e.x = x THEN [e EXCEPT !.jac = TRUE] ELSE [x |-> x, out |-> FALSE, jac |-> TRUE]

\* Discipline.execute(x) of process p whose _execute is Body
ExecWith(w, p, x, Body(_)) ==
    LET w0 == [w EXCEPT !.hj[p] = FALSE]
    IN IF Hit(w0, p, x)
       THEN \* no status, no notification, no statistics: the data and the Jacobian of the entry are restored
            Ok([w0 EXCEPT !.hj[p] = TRUE, !.jne[p] = w0.ent[p].jac, !.io[p] = x])
       ELSE LET r == Handle([w0 EXCEPT !.io[p] = x], p, "RUNNING", "exec", Body)
            IN IF r.ok /\ UseCache THEN Ok([r.w EXCEPT !.ent[p] = StoreOut(@, x)]) ELSE r

RunBody(w, p, f) == IF f = <<p, "run">> THEN R(FALSE, Boom(p, "run"), Tick(w, 1)) ELSE Ok(Tick(w, 1))
JacBody(w, p, f) == IF f = <<p, "jac">> THEN R(FALSE, Boom(p, "jac"), Tick(w, 2)) ELSE Ok(Tick(w, 2))

LeafExec(w, p, x, f) == ExecWith(w, p, x, LAMBDA v : RunBody(v, p, f))
\* MDOChain._execute: the disciplines in order, the first exception stops the chain (y = x, z = y)
ChainBody(w, x, f) ==
    LET r1 == LeafExec(w, "d1", x, f) IN IF ~r1.ok THEN r1 ELSE LeafExec(r1.w, "d2", x, f)
ChainExec(w, x, f) == ExecWith(w, "c", x, LAMBDA v : ChainBody(v, x, f))

\* Discipline.linearize(x, execute=doExec) of process p
LinWith(w, p, x, doExec, ExecOp(_), Jac(_)) ==
    LET r0 == IF doExec THEN ExecOp(w) ELSE Ok(w)
    IN IF ~r0.ok THEN r0
       ELSE IF r0.w.hj[p] /\ r0.w.jne[p]
       THEN r0            \* the Jacobian restored from the cache is returned: no status, no statistics
       ELSE LET r == Handle(r0.w, p, "LINEARIZING", "lin", Jac)
            IN IF ~r.ok THEN r
               ELSE Ok([r.w EXCEPT !.jne[p] = TRUE, !.ent[p] = IF UseCache THEN StoreJac(@, x) ELSE @])

LeafLin(w, p, x, doExec, f) ==
    LinWith(w, p, x, doExec, LAMBDA v : LeafExec(v, p, x, f), LAMBDA v : JacBody(v, p, f))
\* MDOChain._compute_jacobian: last discipline first, each at the input it holds, without re-execution
ChainJac(w, f) ==
    LET r2 == LeafLin(w, "d2", w.io["d2"], FALSE, f)
    IN IF ~r2.ok THEN r2 ELSE LeafLin(r2.w, "d1", r2.w.io["d1"], FALSE, f)
ChainLin(w, x, f) ==
    LinWith(w, "c", x, TRUE, LAMBDA v : ChainExec(v, x, f), LAMBDA v : ChainJac(v, f))

-----------------------------------------------------------------------------
\* what can be asked to fail in a call on p
Fails(p, lin) ==
    LET ps == IF p = "c" THEN Leaves ELSE {p}
    IN {NoFail} \cup (IF WithFailures
                      THEN {<<q, "run">> : q \in ps} \cup (IF lin THEN {<<q, "jac">> : q \in ps} ELSE {})
                      ELSE {})

ExecuteR(p, x, f)   == IF p = "c" THEN ChainExec(World, x, f) ELSE LeafExec(World, p, x, f)
LinearizeR(p, x, f) == IF p = "c" THEN ChainLin(World, x, f) ELSE LeafLin(World, p, x, TRUE, f)
\* p.execution_status.value = s
SetStatusR(p, s) == SetTo(World, p, s)
ToggleR == Ok([World EXCEPT !.en = ~@])
\* n_executions = 0; n_linearizations = 0; duration = 0  (RuntimeError of the first setter while disabled)
ResetStatsR(p) ==
    IF ~en THEN R(FALSE, <<"Disabled", p, "nx", "-">>, World)
    ELSE Ok([World EXCEPT !.nx[p] = 0, !.nl[p] = 0, !.du[p] = 0])

Execute(p, x, f)   == p \in CallProcs /\ Commit(ExecuteR(p, x, f))
Linearize(p, x, f) == p \in CallProcs /\ WithLin /\ Commit(LinearizeR(p, x, f))
SetStatus(p, s)    == p \in SetProcs /\ Commit(SetStatusR(p, s))
Toggle             == WithToggle /\ Commit(ToggleR)
ResetStats(p)      == p \in All /\ WithReset /\ Commit(ResetStatsR(p))

Next ==
    \/ \E p \in CallProcs, x \in X : \E f \in Fails(p, FALSE) : Execute(p, x, f)
    \/ \E p \in CallProcs, x \in X : \E f \in Fails(p, TRUE) : Linearize(p, x, f)
    \/ \E p \in SetProcs, s \in SetVals : SetStatus(p, s)
    \/ Toggle
    \/ \E p \in All : ResetStats(p)

Spec == Init /\ [][Next]_vars
\* (two names: TLC's coverage mode cannot evaluate the CONSTRAINT operator inside another definition)
InBound == \A p \in All : nx[p] <= MaxCnt /\ nl[p] <= MaxCnt

\* the labelled state graph: one JSON line per reachable state (run with one worker)
ExecEdges == {Edge(<<"Execute", c[1], c[2], c[3]>>, ExecuteR(c[1], c[2], c[3])) :
                 c \in UNION {{<<p, x, f>> : x \in X, f \in Fails(p, FALSE)} : p \in CallProcs}}
LinEdges  == IF WithLin
             THEN {Edge(<<"Linearize", c[1], c[2], c[3]>>, LinearizeR(c[1], c[2], c[3])) :
                      c \in UNION {{<<p, x, f>> : x \in X, f \in Fails(p, TRUE)} : p \in CallProcs}}
             ELSE {}
Edges == <<
    ExecEdges, LinEdges,
    {Edge(<<"SetStatus", p, s>>, SetStatusR(p, s)) : p \in SetProcs, s \in SetVals},
    IF WithToggle THEN {Edge(<<"Toggle">>, ToggleR)} ELSE {},
    IF WithReset THEN {Edge(<<"ResetStats", p>>, ResetStatsR(p)) : p \in All} ELSE {} >>
AtInit == /\ \A p \in All : st[p] = "DONE" /\ att[p] = Obs /\ nx[p] = 0 /\ nl[p] = 0 /\ du[p] = 0 /\ ent[p] = NoEntry
          /\ \A p \in Leaves : io[p] = NoX /\ ~hj[p] /\ ~jne[p]
          /\ en = EnInit
Bound == InBound
Dump == InBound => PrintT(ToJson(<<"G", AtInit, StateOf(World), Edges>>))   \* states outside the bound are not nodes

-----------------------------------------------------------------------------
\* The properties are stated on every call possible in a state (its result r against the state it starts from)
ExecResults == {ExecuteR(c[1], c[2], c[3]) :
                   c \in UNION {{<<p, x, f>> : x \in X, f \in Fails(p, FALSE)} : p \in CallProcs}}
LinResults  == IF WithLin
               THEN {LinearizeR(c[1], c[2], c[3]) :
                        c \in UNION {{<<p, x, f>> : x \in X, f \in Fails(p, TRUE)} : p \in CallProcs}}
               ELSE {}
SetResults  == {SetStatusR(p, s) : p \in SetProcs, s \in SetVals}
CallResults == ExecResults \cup LinResults
Results     == CallResults \cup SetResults \cup {ToggleR} \cup {ResetStatsR(p) : p \in All}
Notified(r, p, s) == \E i \in 1..Len(r.w.emit) : r.w.emit[i][1] = p /\ r.w.emit[i][2] = s

TypeOK ==
    /\ st \in [All -> Statuses] /\ att \in [All -> SUBSET Obs] /\ en \in BOOLEAN
    /\ nx \in [All -> Nat] /\ nl \in [All -> Nat] /\ du \in [All -> Nat]
    /\ \A p \in All : ent[p].x \in X \cup {NoX} /\ (ent[p].x = NoX <=> (~ent[p].out /\ ~ent[p].jac))
    /\ io \in [Leaves -> X \cup {NoX}] /\ hj \in [Leaves -> BOOLEAN] /\ jne \in [Leaves -> BOOLEAN]

SeenOK == seen = SeenOf(en, nx, nl, du)

\* between calls nobody is RUNNING or LINEARIZING unless the driver set it by hand
Quiescent == (SetVals \cap Guarded = {}) => \A p \in All : st[p] \in {"DONE", "FAILED"}

\* what each call emits for each process is a chain of accepted settings from its old to its new status
EmitChain == \A r \in Results : \A p \in All : ChainOK(st[p], EmitOf(r.w.emit, p), r.w.st[p])

\* the chain's status brackets those of its disciplines: while a discipline is notified, the last status
\* notified for the chain (if the chain is active in the call at all) is RUNNING or LINEARIZING
Bracketed ==
    \A r \in CallResults : \A i \in 1..Len(r.w.emit) :
        (r.w.emit[i][1] \in Leaves /\ \E j \in 1..(i - 1) : r.w.emit[j][1] = "c") =>
            LET J == {j \in 1..(i - 1) : r.w.emit[j][1] = "c"}
                last == CHOOSE j \in J : \A k \in J : k <= j
            IN r.w.emit[last][2] \in Guarded

DisabledRecordsNothing == ~en => \A r \in Results : (r.w.nx = nx /\ r.w.nl = nl /\ r.w.du = du)

\* per process: a counter moves by at most one per call and only if the process is notified DONE in the call
\* (a cache hit, a refusal, a failure count nothing); durations only grow with the counters
CountersStep ==
    \A r \in CallResults \cup SetResults : \A p \in All :
        /\ r.w.nx[p] - nx[p] \in {0, 1} /\ r.w.nl[p] - nl[p] \in {0, 1} /\ r.w.du[p] >= du[p]
        /\ (r.w.nx[p] + r.w.nl[p] > nx[p] + nl[p]) => Notified(r, p, "DONE")
        /\ (r.w.du[p] > du[p]) => (r.w.nx[p] + r.w.nl[p] > nx[p] + nl[p])
\* while enabled, the executions / linearizations counted for p are exactly its RUNNING->DONE / LINEARIZING->DONE
\* brackets in the call
CountsBrackets ==
    en => \A r \in CallResults : \A p \in All :
            LET e == EmitOf(r.w.emit, p)
                B(s) == Cardinality({i \in 1..(Len(e) - 1) : e[i][2] = s /\ e[i + 1][2] = "DONE"})
            IN r.w.nx[p] = nx[p] + B("RUNNING") /\ r.w.nl[p] = nl[p] + B("LINEARIZING")

\* a failure of a discipline inside the chain fails the chain too
FailurePropagates ==
    \A r \in CallResults : (r.err[1] = "Boom" /\ \E i \in 1..Len(r.w.emit) : r.w.emit[i][1] = "c") =>
        (r.w.st["c"] = "FAILED" /\ r.w.st[r.err[2]] = "FAILED")

\* FAILED is left only by an explicit setting of the status: a discipline that failed inside a chain makes
\* every later execution of the chain fail until ITS status (not only the chain's) is set back to DONE
FailedIsSticky ==
    \A r \in Results : \A p \in All : (st[p] = "FAILED" /\ r.w.st[p] # "FAILED") => r \in SetResults
\* negative run (must be refuted by TLC): "resetting the chain's status is enough to run the chain again"
ChainResetSuffices ==
    \A r \in ExecResults :
        (st["c"] = "DONE" /\ Notified(r, "c", "RUNNING") /\ r.err[1] # "Boom") => r.w.st["c"] = "DONE"
=============================================================================
