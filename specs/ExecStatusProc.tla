--------------------------- MODULE ExecStatusProc ---------------------------
(* Specification growth G01 (outside the listed properties).                  *)
(* Status, observers and statistics of monitored PROCESSES: two disciplines   *)
(* d1: x -> y, d2: y -> z (y = x, z = y) and the MDOChain c = [d1, d2], each   *)
(* with its own ExecutionStatus / ExecutionStatistics (no status propagation   *)
(* exists in the code: the chain's status brackets the statuses of the         *)
(* disciplines it executes) and its own SimpleCache, driven by the public      *)
(* calls execute / linearize / execution_status.value = s / is_enabled / the   *)
(* counters' setters.  The definitions of the automaton are those of           *)
(* ExecStatusDefs; this module adds what decides WHETHER the monitored body    *)
(* runs at all (base_discipline.py:335-377, discipline.py:156-252,789):        *)
(*   - a cache hit of execute() returns before any status / statistics;        *)
(*   - linearize() returns the available Jacobian without status / statistics  *)
(*     when execute() hit an entry that has a Jacobian (_has_jacobian and jac); *)
(*   - the chain linearizes its disciplines in reverse order with execute=False*)
(*     at the inputs they hold (chain.py:226-260).                             *)
(* The bodies of the harness disciplines raise on demand (F = set of           *)
(* <<process, "run"|"jac">> that raise when reached) and advance a logical      *)
(* clock by 1 (_run) or 2 (_compute_jacobian) ticks, so durations are integers.*)
EXTENDS ExecStatusDefs

CONSTANTS
    Obs,         \* observers, all attached to the three processes at the start
    X,           \* input values (small naturals)
    UseCache,    \* TRUE: default SimpleCache everywhere; FALSE: set_cache(NONE)
    SetVals,     \* statuses the driver sets by hand (DisciplineAdapter sets DONE before each evaluation)
    SetProcs,    \* processes whose status the driver sets by hand
    CallProcs,   \* processes the driver executes / linearizes
    WithToggle, WithReset, WithLin,   \* families of actions enabled
    MaxCnt

Leaves == {"d1", "d2"}
All == Leaves \cup {"c"}
NoX == -1
NoEntry == [x |-> NoX, out |-> FALSE, jac |-> FALSE]

VARIABLES
    st, att, en, nx, nl, du,   \* as in ExecStatus, per process
    ent,     \* [All -> entry of the SimpleCache]: input, has outputs, has Jacobian
    io,      \* [Leaves -> X \cup {NoX}]: the input the discipline currently holds in io.data
    hj,      \* [Leaves -> BOOLEAN]: Discipline._has_jacobian
    jne,     \* [Leaves -> BOOLEAN]: Discipline.jac is not empty
    emit, res, seen
vars == <<st, att, en, nx, nl, du, ent, io, hj, jne, emit, res, seen>>

\* the chain's own _has_jacobian / jac / io matter inside a call only (linearize(execute=True) rewrites them
\* before reading them): they are fields of the world, not of the state
World == [st |-> st, att |-> att, en |-> en, nx |-> nx, nl |-> nl, du |-> du, emit |-> <<>>, t |-> 0,
          ent |-> ent,
          io  |-> [p \in All |-> IF p \in Leaves THEN io[p] ELSE NoX],
          hj  |-> [p \in All |-> IF p \in Leaves THEN hj[p] ELSE FALSE],
          jne |-> [p \in All |-> IF p \in Leaves THEN jne[p] ELSE FALSE]]
SeenOf(e, x, l, d) == [p \in All |-> IF e THEN <<x[p], l[p], d[p]>> ELSE <<None, None, None>>]

Commit(r) ==
    /\ st' = r.w.st /\ att' = r.w.att /\ nx' = r.w.nx /\ nl' = r.w.nl /\ du' = r.w.du
    /\ ent' = r.w.ent
    /\ io' = [p \in Leaves |-> r.w.io[p]] /\ hj' = [p \in Leaves |-> r.w.hj[p]]
    /\ jne' = [p \in Leaves |-> r.w.jne[p]]
    /\ emit' = r.w.emit /\ res' = r.err /\ en' = en
    /\ seen' = SeenOf(en', nx', nl', du')

Init ==
    /\ st = [p \in All |-> "DONE"] /\ att = [p \in All |-> Obs] /\ en = TRUE
    /\ nx = [p \in All |-> 0] /\ nl = [p \in All |-> 0] /\ du = [p \in All |-> 0]
    /\ ent = [p \in All |-> NoEntry]
    /\ io = [p \in Leaves |-> NoX] /\ hj = [p \in Leaves |-> FALSE] /\ jne = [p \in Leaves |-> FALSE]
    /\ emit = <<>> /\ res = OkRes /\ seen = SeenOf(TRUE, nx, nl, du)

-----------------------------------------------------------------------------
\* SimpleCache (simple_cache.py): one entry; data are stored under their own input
Hit(w, p, x) == UseCache /\ w.ent[p].x = x /\ w.ent[p].out
StoreOut(e, x) == IF e.x = x THEN [e EXCEPT !.out = TRUE] ELSE [x |-> x, out |-> TRUE, jac |-> FALSE]
StoreJac(e, x) == IF e.x = x THEN [e EXCEPT !.jac = TRUE] ELSE [x |-> x, out |-> FALSE, jac |-> TRUE]

\* Discipline.execute(x) of process p whose _execute is Body
ExecWith(w, p, x, Body(_)) ==
    LET w0 == [w EXCEPT !.hj[p] = FALSE]
    IN IF Hit(w0, p, x)
       THEN \* no status, no notification, no statistics: the data and the Jacobian of the entry are restored
            Ok([w0 EXCEPT !.hj[p] = TRUE, !.jne[p] = w0.ent[p].jac, !.io[p] = x])
       ELSE LET r == Handle([w0 EXCEPT !.io[p] = x], p, "RUNNING", "exec", Body)
            IN IF r.ok /\ UseCache THEN Ok([r.w EXCEPT !.ent[p] = StoreOut(@, x)]) ELSE r

RunBody(w, p, F) == IF <<p, "run">> \in F THEN R(FALSE, Boom(p, "run"), Tick(w, 1)) ELSE Ok(Tick(w, 1))
JacBody(w, p, F) == IF <<p, "jac">> \in F THEN R(FALSE, Boom(p, "jac"), Tick(w, 2)) ELSE Ok(Tick(w, 2))

LeafExec(w, p, x, F) == ExecWith(w, p, x, LAMBDA v : RunBody(v, p, F))
\* MDOChain._execute: the disciplines in order, the first exception stops the chain (y = x, z = y)
ChainBody(w, x, F) ==
    LET r1 == LeafExec(w, "d1", x, F) IN IF ~r1.ok THEN r1 ELSE LeafExec(r1.w, "d2", x, F)
ChainExec(w, x, F) == ExecWith(w, "c", x, LAMBDA v : ChainBody(v, x, F))

\* Discipline.linearize(x, execute=doExec) of process p
LinWith(w, p, x, doExec, ExecOp(_), Jac(_)) ==
    LET r0 == IF doExec THEN ExecOp(w) ELSE Ok(w)
    IN IF ~r0.ok THEN r0
       ELSE IF r0.w.hj[p] /\ r0.w.jne[p]
       THEN r0            \* the Jacobian restored from the cache is returned: no status, no statistics
       ELSE LET r == Handle(r0.w, p, "LINEARIZING", "lin", Jac)
            IN IF ~r.ok THEN r
               ELSE Ok([r.w EXCEPT !.jne[p] = TRUE, !.ent[p] = IF UseCache THEN StoreJac(@, x) ELSE @])

LeafLin(w, p, x, doExec, F) ==
    LinWith(w, p, x, doExec, LAMBDA v : LeafExec(v, p, x, F), LAMBDA v : JacBody(v, p, F))
\* MDOChain._compute_jacobian: last discipline first, each at the input it holds, without re-execution
ChainJac(w, F) ==
    LET r2 == LeafLin(w, "d2", w.io["d2"], FALSE, F)
    IN IF ~r2.ok THEN r2 ELSE LeafLin(r2.w, "d1", r2.w.io["d1"], FALSE, F)
ChainLin(w, x, F) ==
    LinWith(w, "c", x, TRUE, LAMBDA v : ChainExec(v, x, F), LAMBDA v : ChainJac(v, F))

-----------------------------------------------------------------------------
\* what can be asked to fail in a call on p
FailSets(p, lin) ==
    LET ps == IF p = "c" THEN Leaves ELSE {p}
    IN {{}} \cup {{<<q, "run">>} : q \in ps} \cup (IF lin THEN {{<<q, "jac">>} : q \in ps} ELSE {})

Execute(p, x, F) ==
    /\ p \in CallProcs
    /\ Commit(IF p = "c" THEN ChainExec(World, x, F) ELSE LeafExec(World, p, x, F))

Linearize(p, x, F) ==
    /\ p \in CallProcs /\ WithLin
    /\ Commit(IF p = "c" THEN ChainLin(World, x, F) ELSE LeafLin(World, p, x, TRUE, F))

\* p.execution_status.value = s
SetStatus(p, s) == p \in SetProcs /\ Commit(SetTo(World, p, s))

Toggle ==
    /\ WithToggle
    /\ en' = ~en /\ UNCHANGED <<st, att, nx, nl, du, ent, io, hj, jne>>
    /\ emit' = <<>> /\ res' = OkRes /\ seen' = SeenOf(en', nx', nl', du')

\* n_executions = 0; n_linearizations = 0; duration = 0  (RuntimeError of the first setter while disabled)
ResetStats(p) ==
    /\ WithReset
    /\ IF ~en THEN Commit(R(FALSE, <<"Disabled", p, "nx", "-">>, World))
       ELSE Commit(Ok([World EXCEPT !.nx[p] = 0, !.nl[p] = 0, !.du[p] = 0]))

Next ==
    \/ \E p \in All, x \in X : \E F \in FailSets(p, FALSE) : Execute(p, x, F)
    \/ \E p \in All, x \in X : \E F \in FailSets(p, TRUE) : Linearize(p, x, F)
    \/ \E p \in All, s \in SetVals : SetStatus(p, s)
    \/ Toggle
    \/ \E p \in All : ResetStats(p)

Spec == Init /\ [][Next]_vars
Bound == \A p \in All : nx[p] <= MaxCnt /\ nl[p] <= MaxCnt

-----------------------------------------------------------------------------
TypeOK ==
    /\ st \in [All -> Statuses] /\ att \in [All -> SUBSET Obs] /\ en \in BOOLEAN
    /\ nx \in [All -> Nat] /\ nl \in [All -> Nat] /\ du \in [All -> Nat]
    /\ \A p \in All : ent[p].x \in X \cup {NoX} /\ (ent[p].x = NoX <=> (~ent[p].out /\ ~ent[p].jac))
    /\ io \in [Leaves -> X \cup {NoX}] /\ hj \in [Leaves -> BOOLEAN] /\ jne \in [Leaves -> BOOLEAN]
    /\ Len(res) = 4

SeenOK == seen = SeenOf(en, nx, nl, du)

\* between calls nobody is RUNNING or LINEARIZING unless the driver set it by hand
Quiescent == (SetVals \cap Guarded = {}) => \A p \in All : st[p] \in {"DONE", "FAILED"}

\* what each call emitted for each process is a chain of accepted settings from its old to its new status
EmitChain == [][\A p \in All : ChainOK(st[p], EmitOf(emit', p), st'[p])]_vars

\* the chain's status brackets those of its disciplines: while a discipline is notified, the last status
\* notified for the chain (if the chain is active in the call at all) is RUNNING or LINEARIZING
Bracketed ==
    \A i \in 1..Len(emit) :
        (emit[i][1] \in Leaves /\ \E j \in 1..(i - 1) : emit[j][1] = "c") =>
            LET J == {j \in 1..(i - 1) : emit[j][1] = "c"}
                last == CHOOSE j \in J : \A k \in J : k <= j
            IN emit[last][2] \in Guarded

DisabledRecordsNothing == [][~en => UNCHANGED <<nx, nl, du>>]_vars

\* per process: a counter moves by at most one per call and only if the process was notified DONE in the call
\* (a cache hit, a refusal, a failure count nothing); durations only grow with the counters
CountersStep ==
    [][\A p \in All :
          \/ (nx'[p] = 0 /\ nl'[p] = 0 /\ du'[p] = 0)                      \* ResetStats
          \/ /\ nx'[p] - nx[p] \in {0, 1} /\ nl'[p] - nl[p] \in {0, 1} /\ du'[p] >= du[p]
             /\ (nx'[p] + nl'[p] > nx[p] + nl[p]) =>
                    \E i \in 1..Len(emit') : emit'[i][1] = p /\ emit'[i][2] = "DONE"
             /\ (du'[p] > du[p]) => (nx'[p] + nl'[p] > nx[p] + nl[p])]_vars

\* a failure of a discipline inside the chain fails the chain too, and the disciplines after it are untouched
FailurePropagates ==
    [][(res'[1] = "Boom" /\ \E i \in 1..Len(emit') : emit'[i][1] = "c") =>
          (st'["c"] = "FAILED" /\ st'[res'[2]] = "FAILED")]_vars

\* FAILED is left only by an explicit setting of the status: a discipline that failed inside a chain makes
\* every later execution of the chain fail until ITS status (not only the chain's) is set back to DONE
FailedIsSticky == [][\A p \in All : (st[p] = "FAILED" /\ st'[p] # "FAILED") => Len(emit') = 1]_vars
\* negative run (must be refuted): "resetting the chain is enough to run it again"
ChainResetSuffices ==
    [][(st["c"] = "DONE" /\ emit' # <<>> /\ emit'[1] [1] = "c" /\ emit'[1][2] = "RUNNING" /\ res'[1] # "Boom")
          => st'["c"] = "DONE"]_vars
=============================================================================
