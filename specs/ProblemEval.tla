------------------------------ MODULE ProblemEval ------------------------------
(***************************************************************************)
(* C01 - Problem evaluations are faithful, memoized and recorded in        *)
(* physical space.                                                         *)
(*                                                                         *)
(* Models gemseo/algos/problem_function.py (ProblemFunction and its six    *)
(* compute variants), EvaluationProblem.preprocess_functions /             *)
(* _preprocess_function / evaluate_functions (evaluation_problem.py), the  *)
(* part of DesignSpace they use (normalize_vect, unnormalize_vect,         *)
(* round_vect, normalize_grad, unnormalize_grad), Database.store /         *)
(* get_function_value and MDOLinearFunction.normalize.                     *)
(*                                                                         *)
(* Exact-arithmetic slice: a real r is the integer r*S (S = 64); points    *)
(* are multiples of 1/8, bounds are integers with widths 0, 1, 2, 4,       *)
(* coefficients are half-integers: every + - * and every division met is   *)
(* exact here (Div asserts it) and in IEEE doubles.                        *)
(*                                                                         *)
(* The actions are written as the code's variants (no database / database  *)
(* / database with normalised inputs; evaluation sequences chosen as in    *)
(* _preprocess_function).  The property is stated separately as invariants *)
(* over (ret, db, orig) that do not mention those variants.                *)
(*                                                                         *)
(* Two rules of the code as first read (since repaired: D12, D0101)        *)
(* contradict the property; they are                                       *)
(* constants so that TLC can show the refutation at specification level    *)
(* ("asCoded") while the oracle for the implementation uses the intended   *)
(* rule:                                                                   *)
(*   LinRule:  the MDOLinearFunction.normalize branch is taken when        *)
(*             normalize /\ ~round_ints ("asCoded") / only when moreover   *)
(*             the space has no integer variable ("noInteger")             *)
(*   GradRule: normalize_grad = unnormalize_vect(minus_lb=False) rounds    *)
(*             the integer columns of a Jacobian ("asCoded") / scales only *)
(*             ("scaleOnly")                                               *)
(***************************************************************************)
EXTENDS Integers, Sequences, FiniteSets, TLC

CONSTANTS SpaceIds,   \* subset of the catalogue below
          Fn1, Fn2,   \* objective, constraint: two ids out of "qs" "qv" "ls" "lv"
          NPts,       \* request points per space (1..3)
          MaxCalls,   \* bound on the number of recorded original calls (Guard)
          MaxLevel,   \* bound on the behaviour length, in states (Guard)
          LinRule, GradRule

VARIABLES cfg,   \* [normalize, useDb, storeJac, roundInts : BOOLEAN]  (preprocess_functions arguments)
          sp,    \* the design space: [id, intNorm, comps, pts (physical request points), inert]
          db,    \* sequence of [key, vals : fn -> vector | <<>>, jacs : fn -> matrix | <<>>]
          orig,  \* orig[f][kind] : sequence of the points at which the ORIGINAL callable was called
          ret    \* last return
vars == <<cfg, sp, db, orig, ret>>

S == 64
Fns == <<Fn1, Fn2>>
R(n, d) == (n * S) \div d                       \* the real n/d
Div(a, b) == IF a % b = 0 THEN a \div b ELSE Assert(FALSE, <<"inexact division", a, b>>)
FnSet == {Fns[i] : i \in 1..Len(Fns)}
Kinds == {"f", "j"}

(***************************************************************************)
(* Catalogue of design spaces (flat components) and of request points.     *)
(***************************************************************************)
C(l, u)  == [lb |-> R(l, 1), ub |-> R(u, 1), lbInf |-> FALSE, ubInf |-> FALSE, int |-> FALSE]
CI(l, u) == [lb |-> R(l, 1), ub |-> R(u, 1), lbInf |-> FALSE, ubInf |-> FALSE, int |-> TRUE]
CL(l)    == [lb |-> R(l, 1), ub |-> 0, lbInf |-> FALSE, ubInf |-> TRUE, int |-> FALSE]
CU(u)    == [lb |-> 0, ub |-> R(u, 1), lbInf |-> TRUE, ubInf |-> FALSE, int |-> FALSE]
CF       == [lb |-> 0, ub |-> 0, lbInf |-> TRUE, ubInf |-> TRUE, int |-> FALSE]

Space(id) ==
  CASE id = "finite"  -> [intNorm |-> FALSE, comps |-> <<C(-2, 2), C(0, 2)>>]
    [] id = "equal"   -> [intNorm |-> FALSE, comps |-> <<C(-2, 2), C(3, 3)>>]
    \* half-bounded components with a NON-ZERO finite bound (not normalised, never shifted)
    [] id = "halfinf" -> [intNorm |-> FALSE, comps |-> <<C(-1, 0), CL(1)>>]
    [] id = "inf"     -> [intNorm |-> FALSE, comps |-> <<CF, CU(2)>>]
    [] id = "int"     -> [intNorm |-> FALSE, comps |-> <<C(-2, 2), CI(0, 4)>>]
    [] id = "intnorm" -> [intNorm |-> TRUE,  comps |-> <<C(-2, 2), CI(0, 4)>>]
    [] id = "mixed3"  -> [intNorm |-> FALSE, comps |-> <<C(-2, 2), C(3, 3), CI(0, 4)>>]
    [] id = "allint"  -> [intNorm |-> TRUE,  comps |-> <<CI(-2, 2), CI(0, 4)>>]
    [] id = "intneg"  -> [intNorm |-> FALSE, comps |-> <<C(-2, 2), CI(-2, 2)>>]

\* physical request points: the first two share their key on the spaces with an integer variable
\* (normalised inputs), the third one never shares its key with them
PhysPts(id) ==
  CASE id = "finite"  -> << <<R(1, 1), R(1, 2)>>,   <<R(-1, 2), R(2, 1)>>,  <<R(1, 2), R(1, 1)>> >>
    [] id = "equal"   -> << <<R(1, 1), R(3, 1)>>,   <<R(-1, 2), R(3, 1)>>,  <<R(1, 4), R(3, 1)>> >>
    [] id = "halfinf" -> << <<R(-1, 2), R(3, 2)>>,  <<R(-1, 4), R(3, 1)>>,  <<R(0, 1), R(1, 1)>> >>
    [] id = "inf"     -> << <<R(3, 2), R(-1, 2)>>,  <<R(-2, 1), R(2, 1)>>,  <<R(1, 4), R(1, 1)>> >>
    [] id = "int"     -> << <<R(1, 2), R(5, 2)>>,   <<R(1, 2), R(2, 1)>>,   <<R(-9, 8), R(7, 2)>> >>
    [] id = "intnorm" -> << <<R(1, 2), R(5, 2)>>,   <<R(1, 2), R(2, 1)>>,   <<R(-9, 8), R(7, 2)>> >>
    [] id = "mixed3"  -> << <<R(1, 2), R(3, 1), R(5, 2)>>, <<R(1, 2), R(3, 1), R(2, 1)>>,
                            <<R(-9, 8), R(3, 1), R(7, 2)>> >>
    [] id = "allint"  -> << <<R(1, 1), R(5, 2)>>,   <<R(1, 1), R(2, 1)>>,   <<R(-2, 1), R(7, 2)>> >>
    \* -1/4 rounds to the integer 0 (numpy rounds -0.25 to the float -0.0)
    [] id = "intneg"  -> << <<R(1, 2), R(-1, 4)>>,  <<R(1, 2), R(0, 1)>>,   <<R(-9, 8), R(1, 1)>> >>

\* requests that only exist in normalised coordinates: a non-zero value of the INERT coordinate of
\* a component whose bounds coincide (same physical point as the first request)
InertReqs(id) ==
  CASE id = "equal"  -> << <<R(3, 4), R(1, 2)>> >>
    [] id = "mixed3" -> << <<R(5, 8), R(1, 2), R(5, 2)>> >>
    [] OTHER -> <<>>

(***************************************************************************)
(* The user's functions and their exact Jacobians (values scaled by S).    *)
(*   qs(x) = sum_i x_i^2 + sum_i (i+1) x_i + x_1 x_n          (scalar)     *)
(*   qv(x) = (qs(x), x_1 x_n - x_1)                           (vector)     *)
(*   lv(x) = A x + b,  A = H/2 (half-integers), b = (1, 0)    (vector)     *)
(*   ls(x) = a.x + 2,  a = h/2                                (scalar)     *)
(***************************************************************************)
Sum(s) == IF Len(s) = 1 THEN s[1] ELSE IF Len(s) = 2 THEN s[1] + s[2] ELSE s[1] + s[2] + s[3]   \* Len(s) <= 3
Mul(a, b) == Div(a * b, S)
IsLinear(f) == f \in {"ls", "lv"}
NOut(f) == IF f \in {"qs", "ls"} THEN 1 ELSE 2
H(f, r, i) == IF f = "lv" THEN (IF r = 1 THEN 2 * i ELSE (IF i = 1 THEN 6 ELSE -1))
              ELSE (IF i = 1 THEN 1 ELSE (IF i = 2 THEN -4 ELSE 3))
B(f, r) == IF f = "lv" THEN (IF r = 1 THEN S ELSE 0) ELSE 2 * S

QsVal(p) == LET n == Len(p) IN
            Sum([i \in 1..n |-> Mul(p[i], p[i]) + (i + 1) * p[i]]) + Mul(p[1], p[n])
QsGrad(p) == LET n == Len(p) IN
   [i \in 1..n |-> 2 * p[i] + (i + 1) * S + (IF i = 1 THEN p[n] ELSE 0) + (IF i = n THEN p[1] ELSE 0)]
Q2Val(p) == Mul(p[1], p[Len(p)]) - p[1]
Q2Grad(p) == LET n == Len(p) IN
   [i \in 1..n |-> (IF i = 1 THEN p[n] - S ELSE 0) + (IF i = n THEN p[1] ELSE 0)]
LinVal(f, p) == [r \in 1..NOut(f) |->
                   Div(Sum([i \in 1..Len(p) |-> H(f, r, i) * p[i]]), 2) + B(f, r)]
LinJac(f, n) == [r \in 1..NOut(f) |-> [i \in 1..n |-> Div(H(f, r, i) * S, 2)]]

F(f, p) == CASE f = "qs" -> <<QsVal(p)>>
             [] f = "qv" -> <<QsVal(p), Q2Val(p)>>
             [] OTHER    -> LinVal(f, p)
DF(f, p) == CASE f = "qs" -> <<QsGrad(p)>>
              [] f = "qv" -> <<QsGrad(p), Q2Grad(p)>>
              [] OTHER    -> LinJac(f, Len(p))

(***************************************************************************)
(* Design-space operators (as functions of a space record D).              *)
(***************************************************************************)
DimOf(D) == Len(D.comps)
HasIntD(D) == \E i \in 1..DimOf(D) : D.comps[i].int
\* DesignSpace._add_norm_policy: bounded float components (integers only when enabled)
MaskD(D, i) == LET c == D.comps[i] IN (~c.int \/ D.intNorm) /\ ~c.lbInf /\ ~c.ubInf
WidthD(D, i) == D.comps[i].ub - D.comps[i].lb
\* numpy.round: half to even
RoundS(v) == LET q == v \div S
                 r == v % S
             IN IF 2 * r < S THEN q * S
                ELSE IF 2 * r > S THEN (q + 1) * S
                ELSE (IF q % 2 = 0 THEN q * S ELSE (q + 1) * S)
RoundVectD(D, p) == [i \in 1..Len(p) |-> IF D.comps[i].int THEN RoundS(p[i]) ELSE p[i]]
\* normalize_vect: (x - lb) / (ub - lb) on the normalised components, factor 1 when ub = lb
NormVectD(D, p) == [i \in 1..Len(p) |->
    IF MaskD(D, i)
    THEN (IF WidthD(D, i) = 0 THEN p[i] - D.comps[i].lb
          ELSE Div((p[i] - D.comps[i].lb) * S, WidthD(D, i)))
    ELSE p[i]]
UnnormRawD(D, x) == [i \in 1..Len(x) |->
    IF MaskD(D, i) THEN Div(x[i] * WidthD(D, i), S) + D.comps[i].lb ELSE x[i]]
\* unnormalize_vect ROUNDS the integer components as soon as the space has one
UnnormVectD(D, x) == IF HasIntD(D) THEN RoundVectD(D, UnnormRawD(D, x)) ELSE UnnormRawD(D, x)
\* the derivative w.r.t. normalised coordinates: d/dx_n = (ub - lb) d/dx
ScaleGradD(D, J) == [r \in 1..Len(J) |-> [i \in 1..Len(J[r]) |->
    IF MaskD(D, i) THEN Div(J[r][i] * WidthD(D, i), S) ELSE J[r][i]]]
\* normalize_grad as coded = unnormalize_vect(g, minus_lb=False): scaling, then round_vect
NormGradD(D, J) ==
    IF GradRule = "asCoded" /\ HasIntD(D)
    THEN [r \in 1..Len(J) |-> RoundVectD(D, ScaleGradD(D, J)[r])]
    ELSE ScaleGradD(D, J)
\* unnormalize_grad = normalize_vect(g, minus_lb=False): inverse factor, 1 where ub = lb
UnnormGradD(D, J) == [r \in 1..Len(J) |-> [i \in 1..Len(J[r]) |->
    IF MaskD(D, i) /\ WidthD(D, i) # 0 THEN Div(J[r][i] * S, WidthD(D, i)) ELSE J[r][i]]]
\* check_membership
MemberD(D, p) == \A i \in 1..Len(p) : LET c == D.comps[i] IN
    /\ (c.lbInf \/ c.lb <= p[i]) /\ (c.ubInf \/ p[i] <= c.ub)
    /\ (c.int => p[i] % S = 0)

\* MDOLinearFunction.normalize: coefficients scaled by the widths, offset shifted by the lower bounds
LinNormCoef(D, f) == [r \in 1..NOut(f) |-> [i \in 1..DimOf(D) |->
    IF MaskD(D, i) THEN Div(LinJac(f, DimOf(D))[r][i] * WidthD(D, i), S) ELSE LinJac(f, DimOf(D))[r][i]]]
LinNormVal(D, f, x) ==
    LET shift == [i \in 1..DimOf(D) |-> IF MaskD(D, i) THEN D.comps[i].lb ELSE 0]
        v0 == F(f, shift)
        cn == LinNormCoef(D, f)
    IN [r \in 1..NOut(f) |-> Div(Sum([i \in 1..DimOf(D) |-> cn[r][i] * x[i]]), S) + v0[r]]

(***************************************************************************)
(* State-level shorthands.                                                 *)
(***************************************************************************)
SpaceRec(id) == [id |-> id, intNorm |-> Space(id).intNorm, comps |-> Space(id).comps,
                 pts |-> SubSeq(PhysPts(id), 1, NPts),
                 inert |-> IF NPts >= 3 THEN InertReqs(id) ELSE <<>>]
D0 == sp
Dim == DimOf(D0)
HasInt == HasIntD(D0)
RI == cfg.roundInts /\ HasInt          \* preprocess_functions keeps round_ints only with an integer variable
UnnormVect(x) == UnnormVectD(D0, x)
RoundVect(p) == RoundVectD(D0, p)
NormVect(p) == NormVectD(D0, p)
NormGrad(J) == NormGradD(D0, J)
UnnormGrad(J) == UnnormGradD(D0, J)
Pts == {sp.pts[i] : i \in 1..Len(sp.pts)}
MemberPts == {p \in Pts : MemberD(D0, p)}
\* what a caller may pass to a problem function: a point in the coordinates the functions expect
ReqSeq == IF cfg.normalize
          THEN [i \in 1..Len(sp.pts) |-> NormVect(sp.pts[i])] \o sp.inert
          ELSE sp.pts
Requests == {ReqSeq[i] : i \in 1..Len(ReqSeq)}
MaxReq == 4

NoVals == [f \in FnSet |-> <<>>]
\* ret: kind/call identify the last public call (call = <<name, arguments...>> as the driver issues it),
\* x the point in the coordinates the functions expect, outs/jacs what was returned per function,
\* hitF/hitJ which of them were served from the database, frac whether the request has a non-integral
\* integer component before any rounding (an observation used to classify findings)
NoRet == [kind |-> "none", call |-> <<"none">>, x |-> <<>>, outs |-> NoVals, jacs |-> NoVals,
          hitF |-> {}, hitJ |-> {}, frac |-> FALSE]
Frac(x) == LET u == IF cfg.normalize THEN UnnormRawD(D0, x) ELSE x IN u # RoundVect(u)

(***************************************************************************)
(* _preprocess_function: the evaluation sequences.                         *)
(***************************************************************************)
LinBranchOk == (LinRule = "asCoded") \/ ~HasInt
Branch(f) == IF IsLinear(f) /\ ~RI /\ cfg.normalize /\ LinBranchOk THEN "linnorm"
             ELSE IF cfg.normalize /\ RI THEN "norm_round"
             ELSE IF RI THEN "round"
             ELSE IF cfg.normalize THEN "norm"
             ELSE "plain"
\* the point handed to the ORIGINAL callable (none in the linear branch: the scaled twin is called)
OrigPoint(f, x) == CASE Branch(f) = "linnorm"    -> <<>>
                     [] Branch(f) = "norm_round" -> <<RoundVect(UnnormVect(x))>>
                     [] Branch(f) = "round"      -> <<RoundVect(x)>>
                     [] Branch(f) = "norm"       -> <<UnnormVect(x)>>
                     [] OTHER                    -> <<x>>
SeqF(f, x) == IF Branch(f) = "linnorm" THEN LinNormVal(D0, f, x) ELSE F(f, OrigPoint(f, x)[1])
SeqJ(f, x) == CASE Branch(f) = "linnorm" -> LinNormCoef(D0, f)
                [] Branch(f) \in {"norm_round", "norm"} -> NormGrad(DF(f, OrigPoint(f, x)[1]))
                [] OTHER -> DF(f, OrigPoint(f, x)[1])

(***************************************************************************)
(* Database (insertion-ordered mapping) and the compute variants, as pure  *)
(* steps on st = [db, orig] returning [db, orig, out, hit].                *)
(***************************************************************************)
Find(d, k) == IF \E i \in 1..Len(d) : d[i].key = k THEN CHOOSE i \in 1..Len(d) : d[i].key = k ELSE 0
Stored(d, k, f, kind) == LET i == Find(d, k) IN
    IF i = 0 THEN <<>> ELSE (IF kind = "f" THEN d[i].vals[f] ELSE d[i].jacs[f])
Put(d, k, f, kind, v) == LET i == Find(d, k) IN
    IF i = 0
    THEN Append(d, [key |-> k,
                    vals |-> [g \in FnSet |-> IF g = f /\ kind = "f" THEN v ELSE <<>>],
                    jacs |-> [g \in FnSet |-> IF g = f /\ kind = "j" THEN v ELSE <<>>]])
    ELSE (IF kind = "f" THEN [d EXCEPT ![i].vals[f] = v] ELSE [d EXCEPT ![i].jacs[f] = v])
Called(o, f, kind, x) == [o EXCEPT ![f][kind] = @ \o OrigPoint(f, x)]
\* ProblemFunction uses the normalised variants iff the function expects normalised inputs
Key(x) == IF cfg.normalize THEN UnnormVect(x) ELSE x

StepF(st, f, x) ==
    IF ~cfg.useDb
    THEN [db |-> st.db, orig |-> Called(st.orig, f, "f", x), out |-> SeqF(f, x), hit |-> FALSE]   \* _compute_output
    ELSE LET k == Key(x)                                   \* _compute_output_db / _compute_output_db_norm
             s == Stored(st.db, k, f, "f")
         IN IF s # <<>>
            THEN [db |-> st.db, orig |-> st.orig, out |-> s, hit |-> TRUE]
            ELSE LET v == SeqF(f, x) IN
                 [db |-> Put(st.db, k, f, "f", v), orig |-> Called(st.orig, f, "f", x), out |-> v, hit |-> FALSE]

StepJ(st, f, x) ==
    IF ~cfg.useDb
    THEN [db |-> st.db, orig |-> Called(st.orig, f, "j", x), out |-> SeqJ(f, x), hit |-> FALSE]   \* _compute_jacobian
    ELSE LET k == Key(x)
             s == Stored(st.db, k, f, "j")
         IN IF ~cfg.normalize
            THEN (IF s # <<>>                                                            \* _compute_jacobian_db
                  THEN [db |-> st.db, orig |-> st.orig, out |-> s, hit |-> TRUE]
                  ELSE LET j == SeqJ(f, x) IN
                       [db |-> IF cfg.storeJac THEN Put(st.db, k, f, "j", j) ELSE st.db,
                        orig |-> Called(st.orig, f, "j", x), out |-> j, hit |-> FALSE])
            ELSE (IF s # <<>>                                                            \* _compute_jacobian_db_norm
                  THEN [db |-> st.db, orig |-> st.orig, out |-> NormGrad(s), hit |-> TRUE]
                  ELSE LET jn == SeqJ(f, x)
                           ju == UnnormGrad(jn)
                       IN [db |-> IF cfg.storeJac THEN Put(st.db, k, f, "j", ju) ELSE st.db,
                           orig |-> Called(st.orig, f, "j", x), out |-> jn, hit |-> FALSE])

Cur == [db |-> db, orig |-> orig]

(***************************************************************************)
(* Actions.                                                                *)
(***************************************************************************)
CfgSpace == [normalize : BOOLEAN, useDb : BOOLEAN, storeJac : BOOLEAN, roundInts : BOOLEAN]
Init == /\ cfg \in CfgSpace
        /\ sp \in {SpaceRec(id) : id \in SpaceIds}
        /\ db = <<>>
        /\ orig = [f \in FnSet |-> [k \in Kinds |-> <<>>]]
        /\ ret = NoRet

\* bounded exploration: behaviours of at most MaxLevel states with at most MaxCalls original calls
\* (run with deadlock checking off)
NCalls == Sum([i \in 1..Len(Fns) |-> Len(orig[Fns[i]]["f"]) + Len(orig[Fns[i]]["j"])])
Guard == TLCGet("level") < MaxLevel /\ NCalls < MaxCalls

\* problem.<function>.evaluate(x)
EvalF(f, i) ==
    /\ Guard /\ i <= Len(ReqSeq)
    /\ LET x == ReqSeq[i]
           r == StepF(Cur, f, x) IN
       /\ db' = r.db /\ orig' = r.orig
       /\ ret' = [NoRet EXCEPT !.kind = "F", !.call = <<"EvalF", f, x>>, !.x = x, !.outs[f] = r.out,
                               !.hitF = IF r.hit THEN {f} ELSE {}, !.frac = Frac(x)]
    /\ UNCHANGED <<cfg, sp>>

\* problem.<function>.jac(x)
EvalJ(f, i) ==
    /\ Guard /\ i <= Len(ReqSeq)
    /\ LET x == ReqSeq[i]
           r == StepJ(Cur, f, x) IN
       /\ db' = r.db /\ orig' = r.orig
       /\ ret' = [NoRet EXCEPT !.kind = "J", !.call = <<"EvalJ", f, x>>, !.x = x, !.jacs[f] = r.out,
                               !.hitJ = IF r.hit THEN {f} ELSE {}, !.frac = Frac(x)]
    /\ UNCHANGED <<cfg, sp>>

\* problem.evaluate_functions(v, design_vector_is_normalized = given, jacobian_functions = () | None):
\* _preprocess_inputs converts v into the coordinates the functions expect (check_membership first:
\* only members are passed), then all outputs in order, then all Jacobians in order.
EvalAll(i, given, withJac) ==
    /\ Guard /\ i <= Len(sp.pts)
    /\ sp.pts[i] \in MemberPts
    /\ LET p  == sp.pts[i]
           v  == IF given THEN NormVect(p) ELSE p
           x  == IF given /\ ~cfg.normalize THEN UnnormVect(v)
                 ELSE IF ~given /\ cfg.normalize THEN NormVect(v) ELSE v
           f1 == Fns[1]
           f2 == Fns[2]
           a1 == StepF(Cur, f1, x)
           a2 == StepF(a1, f2, x)
           b1 == IF withJac THEN StepJ(a2, f1, x) ELSE a2
           b2 == IF withJac THEN StepJ(b1, f2, x) ELSE a2
       IN /\ db' = b2.db /\ orig' = b2.orig
          /\ ret' = [kind |-> "All", call |-> <<"EvalAll", v, given, withJac>>, x |-> x, frac |-> FALSE,
                     outs |-> [f \in FnSet |-> IF f = f2 THEN a2.out ELSE a1.out],
                     jacs |-> [f \in FnSet |-> IF ~withJac THEN <<>> ELSE (IF f = f2 THEN b2.out ELSE b1.out)],
                     hitF |-> {f \in FnSet : (f = f1 /\ a1.hit) \/ (f = f2 /\ a2.hit)},
                     hitJ |-> {f \in FnSet : withJac /\ ((f = f1 /\ b1.hit) \/ (f = f2 /\ b2.hit))}]
    /\ UNCHANGED <<cfg, sp>>

\* a second preprocess_functions(...) with any arguments changes nothing (idempotent)
Flipped == [normalize |-> ~cfg.normalize, useDb |-> ~cfg.useDb, storeJac |-> ~cfg.storeJac,
            roundInts |-> ~cfg.roundInts]
Preprocess(c) == /\ Guard
                 /\ c = Flipped /\ ret.kind # "Pre"      \* one representative of "any other arguments"
                 /\ ret' = [NoRet EXCEPT !.kind = "Pre", !.call = <<"Preprocess", c>>]
                 /\ UNCHANGED <<cfg, sp, db, orig>>

\* problem.reset() (the database is cleared, the ORIGINAL functions are restored) followed by a new
\* preprocess_functions(c): what a second run on the same problem does.  The originals are the same
\* objects as before: everything after it is again stated against the constants F / DF (OriginalIntact).
\* orig restarts: it logs the original calls since the last (re-)preprocessing.
RepreSet == {cfg, [cfg EXCEPT !.normalize = ~cfg.normalize]}
Repreprocess(c) == /\ Guard
                   /\ c \in RepreSet /\ ret.kind # "Re"
                   /\ cfg' = c /\ db' = <<>>
                   /\ orig' = [f \in FnSet |-> [k \in Kinds |-> <<>>]]
                   /\ ret' = [NoRet EXCEPT !.kind = "Re", !.call = <<"Repreprocess", c>>]
                   /\ UNCHANGED sp

Next == \/ \E f \in FnSet, i \in 1..MaxReq : EvalF(f, i)
        \/ \E f \in FnSet, i \in 1..MaxReq : EvalJ(f, i)
        \/ \E i \in 1..3, g \in BOOLEAN, wj \in BOOLEAN : EvalAll(i, g, wj)
        \/ \E c \in CfgSpace : Preprocess(c)
        \/ \E c \in CfgSpace : Repreprocess(c)
Spec == Init /\ [][Next]_vars

Bounded == NCalls <= MaxCalls /\ TLCGet("level") <= MaxLevel

(***************************************************************************)
(* The property (does not refer to branches or database variants).         *)
(***************************************************************************)
\* the physical point of a request: the design space's own unnormalisation, or the point itself
Phys(x) == IF cfg.normalize THEN UnnormVect(x) ELSE x
\* ... at which the user's function is to be evaluated: rounded iff round_ints
EvalPoint(x) == IF RI THEN RoundVect(Phys(x)) ELSE Phys(x)
RoundIf(k) == IF RI THEN RoundVect(k) ELSE k
\* d x_phys / d x_caller
CallerScale(i) == IF cfg.normalize /\ MaskD(D0, i) THEN WidthD(D0, i) ELSE S
InCaller(J) == [r \in 1..Len(J) |-> [i \in 1..Dim |-> Div(J[r][i] * CallerScale(i), S)]]
\* the physical Jacobian as recorded: zero on the components whose normalised coordinate is inert
Inert(i) == cfg.normalize /\ MaskD(D0, i) /\ WidthD(D0, i) = 0
Recordable(J) == [r \in 1..Len(J) |-> [i \in 1..Dim |-> IF Inert(i) THEN 0 ELSE J[r][i]]]

TypeOK == /\ ret.kind \in {"none", "F", "J", "All", "Pre", "Re"}
          /\ \A i \in 1..Len(db) : Len(db[i].key) = Dim

Faithful == \A f \in FnSet : ret.outs[f] # <<>> => ret.outs[f] = F(f, EvalPoint(ret.x))

JacCoords == \A f \in FnSet : ret.jacs[f] # <<>> => ret.jacs[f] = InCaller(DF(f, EvalPoint(ret.x)))

Recorded == \A i \in 1..Len(db) : \A f \in FnSet :
    /\ (db[i].vals[f] # <<>> =>
          /\ db[i].vals[f] = F(f, RoundIf(db[i].key))
          /\ \A x \in Requests : Key(x) = db[i].key => db[i].vals[f] = F(f, EvalPoint(x)))
    /\ (db[i].jacs[f] # <<>> =>
          /\ db[i].jacs[f] = Recordable(DF(f, RoundIf(db[i].key)))
          /\ \A x \in Requests : Key(x) = db[i].key => db[i].jacs[f] = Recordable(DF(f, EvalPoint(x))))

NoDup(s) == \A i, j \in 1..Len(s) : i # j => s[i] # s[j]
KeysDistinct == NoDup([i \in 1..Len(db) |-> db[i].key])
NonEmptyEntries == \A i \in 1..Len(db) : \E f \in FnSet : db[i].vals[f] # <<>> \/ db[i].jacs[f] # <<>>

\* with the database every original call produced one record: the originals are called at most once
\* per recorded point (requests with the same key never call the original twice)
NRec(f, kind) == Cardinality({i \in 1..Len(db) : (IF kind = "f" THEN db[i].vals[f] ELSE db[i].jacs[f]) # <<>>})
Memo == cfg.useDb => \A f \in FnSet :
    /\ Len(orig[f]["f"]) <= NRec(f, "f")
    /\ (cfg.storeJac => Len(orig[f]["j"]) <= NRec(f, "j"))
NoJacStored == ~cfg.storeJac => \A i \in 1..Len(db) : \A f \in FnSet : db[i].jacs[f] = <<>>
NoDbNoRecord == ~cfg.useDb => db = <<>>

IsPrefix(s, t) == Len(s) <= Len(t) /\ \A i \in 1..Len(s) : s[i] = t[i]
Keys(d) == [i \in 1..Len(d) |-> d[i].key]
\* (between two resets of the problem)
KeysAppendOnly == [][ret'.kind = "Re" \/ IsPrefix(Keys(db), Keys(db'))]_vars
\* entries only grow: a recorded value / Jacobian is never overwritten
WriteOnce == [][ret'.kind = "Re" \/ \A i \in 1..Len(db) : \A f \in FnSet :
                  /\ (db[i].vals[f] # <<>> => db'[i].vals[f] = db[i].vals[f])
                  /\ (db[i].jacs[f] # <<>> => db'[i].jacs[f] = db[i].jacs[f])]_vars
\* the configuration only changes by a reset followed by a new preprocessing, which starts from an
\* empty database
ConfigFixed == [][sp' = sp /\ (cfg' # cfg => ret'.kind = "Re") /\ (ret'.kind = "Re" => db' = <<>>)]_vars
\* OriginalIntact: the user's functions are the CONSTANT operators F / DF of this module: no action can
\* change them.  The driver compares the original function objects (values, Jacobians, coefficients of
\* the linear ones) with F / DF on the request points after every call.
\* a request at a recorded point is served from the database: no original call, same result
ServedFromDb == [][cfg.useDb /\ ret'.kind \in {"F", "J"} =>
    \A f \in FnSet :
       /\ (ret'.kind = "F" /\ ret'.outs[f] # <<>> /\ Stored(db, Key(ret'.x), f, "f") # <<>> =>
             /\ orig' = orig /\ db' = db /\ f \in ret'.hitF
             /\ ret'.outs[f] = Stored(db, Key(ret'.x), f, "f"))
       /\ (ret'.kind = "J" /\ ret'.jacs[f] # <<>> /\ Stored(db, Key(ret'.x), f, "j") # <<>> =>
             /\ orig' = orig /\ db' = db /\ f \in ret'.hitJ
             /\ ret'.jacs[f] = InCaller(Stored(db, Key(ret'.x), f, "j")))]_vars
PreprocessIdempotent == [][ret'.kind = "Pre" => db' = db /\ orig' = orig /\ cfg' = cfg]_vars

(***************************************************************************)
(* Calibration of the harness callables: the values of the user's functions *)
(* on every point the model can hand to them (printed, POSTCONDITION).     *)
(***************************************************************************)
CalibPoints(id) == LET D == Space(id)
                       P == {PhysPts(id)[i] : i \in 1..3}
                   IN P \cup {RoundVectD(D, p) : p \in P}
Calib == \A id \in SpaceIds : \A p \in CalibPoints(id) : \A f \in FnSet :
            PrintT(<<"CALIB", id, f, p, F(f, p), DF(f, p)>>)
ASSUME Calib
================================================================================
