------------------------------- MODULE Dyadic -------------------------------
(***************************************************************************)
(* Exact arithmetic for the C06 slice (DESIGN.md 3.3).                     *)
(*                                                                         *)
(* 1. BigNat: natural numbers of arbitrary size as little-endian sequences *)
(*    of limbs in base 4096 (canonical: no leading zero limb, 0 = << >>),  *)
(*    because TLC integers are 32-bit and the stop test of an MDA squares  *)
(*    residuals of 24-bit resolution.  Every intermediate value of the     *)
(*    operators below stays under 2^31 when the integer arguments are      *)
(*    under 2^31 in absolute value.                                        *)
(* 2. Dyadic scalars <<m, e>> = m / 2^e, canonical (m odd, or e = 0), so   *)
(*    that equality of values is equality of tuples; IEEE doubles compute  *)
(*    the same numbers as long as |m| < 2^53, which is what makes          *)
(*    "implementation iterate = specification iterate" an exact test.      *)
(* 3. Comparisons  a * 2^s  ~  b  between BigNats, used for squared norms. *)
(***************************************************************************)
EXTENDS Integers, Sequences, TLC

Base == 4096
AbsI(n) == IF n < 0 THEN 0 - n ELSE n
MaxI(a, b) == IF a < b THEN b ELSE a
MinI(a, b) == IF a < b THEN a ELSE b

\* ---- BigNat ---------------------------------------------------------------
RECURSIVE BTrim(_)
BTrim(a) == IF Len(a) > 0 /\ a[Len(a)] = 0 THEN BTrim(SubSeq(a, 1, Len(a) - 1)) ELSE a

\* from a natural number < 2^31
BN(n) == BTrim(<<n % Base, (n \div Base) % Base, n \div (Base * Base)>>)

Limb(a, i) == IF i >= 1 /\ i <= Len(a) THEN a[i] ELSE 0

\* propagate carries of a sequence of non-negative "wide" limbs (each < 2^30)
RECURSIVE BCarry(_, _, _)
BCarry(w, i, c) ==
  IF i > Len(w) THEN (IF c = 0 THEN << >> ELSE <<c % Base>> \o BCarry(w, i, c \div Base))
  ELSE LET t == w[i] + c IN <<t % Base>> \o BCarry(w, i + 1, t \div Base)
BNorm(w) == BTrim(BCarry(w, 1, 0))

BAdd(a, b) == BNorm([i \in 1..MaxI(Len(a), Len(b)) |-> Limb(a, i) + Limb(b, i)])
\* a * k for 0 <= k < 2^18
BMulSmall(a, k) == BNorm([i \in 1..Len(a) |-> a[i] * k])

RECURSIVE ConvTo(_, _, _, _)
\* sum_{i + j = n + 1, i <= k} a[i] * b[j]
ConvTo(a, b, n, k) == IF k = 0 THEN 0 ELSE Limb(a, k) * Limb(b, n + 1 - k) + ConvTo(a, b, n, k - 1)
\* a * b for Len(a), Len(b) <= 60 (column sums < 60 * 2^24 < 2^30)
BMul(a, b) == IF Len(a) = 0 \/ Len(b) = 0 THEN << >>
              ELSE BNorm([n \in 1..(Len(a) + Len(b)) |-> ConvTo(a, b, n, MinI(n, Len(a)))])

\* a * 2^s, s >= 0
BShl(a, s) == IF Len(a) = 0 THEN << >>
              ELSE [i \in 1..(s \div 12) |-> 0] \o BMulSmall(a, 2 ^ (s % 12))

RECURSIVE BCmpFrom(_, _, _)
BCmpFrom(a, b, i) == IF i = 0 THEN 0
                     ELSE IF a[i] < b[i] THEN -1 ELSE IF a[i] > b[i] THEN 1 ELSE BCmpFrom(a, b, i - 1)
\* -1, 0, 1
BCmp(a, b) == IF Len(a) < Len(b) THEN -1 ELSE IF Len(a) > Len(b) THEN 1 ELSE BCmpFrom(a, b, Len(a))
BLeq(a, b) == BCmp(a, b) <= 0

\* a - b for a >= b
RECURSIVE BBorrow(_, _, _, _)
BBorrow(a, b, i, c) ==
  IF i > Len(a) THEN << >>
  ELSE LET t == a[i] - Limb(b, i) - c
       IN  IF t < 0 THEN <<t + Base>> \o BBorrow(a, b, i + 1, 1) ELSE <<t>> \o BBorrow(a, b, i + 1, 0)
BSub(a, b) == BTrim(BBorrow(a, b, 1, 0))
\* |a - b|
BDist(a, b) == IF BLeq(b, a) THEN BSub(a, b) ELSE BSub(b, a)

BSq(n) == LET b == BN(AbsI(n)) IN BMul(b, b)      \* n^2 for an integer |n| < 2^31

\* compare a * 2^s with b (s any integer): -1, 0, 1
BCmpSh(a, s, b) == IF s >= 0 THEN BCmp(BShl(a, s), b) ELSE BCmp(a, BShl(b, 0 - s))

\* signed big integers as <<sign, magnitude>>, sign in {-1, 0, 1}
SB(n) == <<IF n < 0 THEN -1 ELSE IF n > 0 THEN 1 ELSE 0, BN(AbsI(n))>>
SBMulB(x, b) == IF Len(b) = 0 THEN <<0, << >> >> ELSE <<x[1], BMul(x[2], b)>>
SBNeg(x) == <<0 - x[1], x[2]>>
SBAdd(x, y) ==
  IF x[1] = 0 THEN y ELSE IF y[1] = 0 THEN x
  ELSE IF x[1] = y[1] THEN <<x[1], BAdd(x[2], y[2])>>
  ELSE LET c == BCmp(x[2], y[2])
       IN  IF c = 0 THEN <<0, << >> >>
           ELSE IF c > 0 THEN <<x[1], BSub(x[2], y[2])>> ELSE <<y[1], BSub(y[2], x[2])>>
SBSub(x, y) == SBAdd(x, SBNeg(y))

\* ---- dyadic scalars -------------------------------------------------------
RECURSIVE DN(_, _)
DN(m, e) == IF e > 0 /\ m % 2 = 0 THEN DN(m \div 2, e - 1) ELSE <<m, e>>
DInt(n) == <<n, 0>>
DZero == <<0, 0>>
IsDyadic(a) == /\ a[2] >= 0
               /\ (a[2] > 0 => a[1] % 2 = 1)
\* the numerator of a at exponent E >= a[2]
DAt(a, E) == IF a[1] = 0 THEN 0 ELSE a[1] * 2 ^ (E - a[2])
DAdd(a, b) == LET E == MaxI(a[2], b[2]) IN DN(DAt(a, E) + DAt(b, E), E)
DNeg(a) == <<0 - a[1], a[2]>>
DSub(a, b) == DAdd(a, DNeg(b))
DScale(n, a) == DN(n * a[1], a[2])          \* integer n times a
DShr(a, k) == DN(a[1], a[2] + k)            \* a / 2^k
DAbs(a) == <<AbsI(a[1]), a[2]>>
DLeq(a, b) == LET E == MaxI(a[2], b[2]) IN DAt(a, E) <= DAt(b, E)
DMax(a, b) == IF DLeq(a, b) THEN b ELSE a

RECURSIVE DSumTo(_, _)
DSumTo(f, n) == IF n = 0 THEN DZero ELSE DAdd(f[n], DSumTo(f, n - 1))

\* the largest exponent of a vector of dyadics (0 for the empty vector)
RECURSIVE VExpTo(_, _)
VExpTo(v, n) == IF n = 0 THEN 0 ELSE MaxI(v[n][2], VExpTo(v, n - 1))
VExp(v) == VExpTo(v, Len(v))

\* sum of the squares of the components listed in idx (a sequence of indices) of the vector v,
\* as the pair <<BigNat S, E>> meaning S / 4^E  (E = the common exponent)
RECURSIVE BSumSqTo(_, _, _, _)
BSumSqTo(v, idx, E, n) == IF n = 0 THEN << >>
                          ELSE BAdd(BSq(DAt(v[idx[n]], E)), BSumSqTo(v, idx, E, n - 1))
SumSq(v, idx) == LET E == VExp(v) IN <<BSumSqTo(v, idx, E, Len(idx)), E>>

\* compare P / 4^EP * 4^t  with  Q / 4^EQ * k  (k a natural < 2^18): -1, 0, 1
CmpSq(P, t, Q, k) == LET s == 2 * (t + Q[2] - P[2])
                     IN  BCmpSh(P[1], s, BMulSmall(Q[1], k))
=============================================================================
