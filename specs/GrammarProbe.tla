---------------------------- MODULE GrammarProbe ----------------------------
(* Oracle run for C15: evaluates, for grammar definitions met by the harness    *)
(* (states of the transition tour, grammars loaded from the shipped JSON files),*)
(* the probe data of Grammar.tla with the verdict of Validate, and what the     *)
(* JSON -> simple conversion must accept.  Nothing is explored: one state.      *)
EXTENDS Grammar, Json, IOUtils, TLCExt
Data == JsonDeserialize(IOEnv.PROBE_FILE)
   \* << [id |-> 1, names |-> <<"a","b">>, types |-> << <<"Int">>, <<"Num","Str">> >>, req |-> <<"a">>], ... >>
ToSet(sq) == {sq[i] : i \in 1..Len(sq)}
IndexOf(sq, x) == CHOOSE i \in 1..Len(sq) : sq[i] = x
GOf(r) == [Fresh EXCEPT !.elems = [n \in ToSet(r.names) |-> ToSet(r.types[IndexOf(r.names, n)])],
                        !.req = ToSet(r.req)]
PInit == /\ g = [s \in Slots |-> Empty] /\ q = [s \in Slots |-> Cold] /\ h = 0
         /\ PrintT(<<"OTHERS", SchemaOthers>>)
         /\ \A i \in 1..Len(Data) :
              LET G == GOf(Data[i]) IN
                PrintT(<<"PROBES", Data[i].id, Probes(G), ConversionMustAccept(G), WellFormedG(G)>>)
PNext == UNCHANGED vars
==============================================================================
