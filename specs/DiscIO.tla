------------------------------- MODULE DiscIO -------------------------------
(* G05 (specification growth): the data protocol of Discipline.execute                        *)
(*   src/gemseo/core/discipline/base_discipline.py  execute / _execute                        *)
(*   src/gemseo/core/discipline/io.py               prepare_input_data / initialize /         *)
(*                                                  update_output_data / finalize             *)
(*   src/gemseo/core/discipline/data_processor.py   NameMapping                               *)
(* One action per public call.  Execute is written as the code's steps: prepare (complete     *)
(* with the defaults, drop the names that are not inputs, None = absent) -> validate inputs   *)
(* -> pre-process -> the body sees its inputs (namespace prefixes removed) -> the body hands  *)
(* its outputs over in one of several styles -> post-process -> validate outputs.             *)
(* The discipline has no cache (C05 is about caches).                                          *)
(*                                                                                             *)
(* Arrays are objects: the constant AliasDefaults = TRUE is the rule AS CODED (the default     *)
(* arrays themselves are put into the data handed to the body and returned to the caller, so  *)
(* a caller - or a body - that edits them in place edits the defaults); FALSE is value         *)
(* semantics.  TLC refutes DefaultsStable under TRUE (design-level observation) and the       *)
(* harness replays the TRUE model on the real code.                                           *)
EXTENDS Naturals, Integers, FiniteSets, Sequences, TLC, Functions

CONSTANTS Vals,           \* values a caller passes, e.g. {1, 2}
          DefVals,        \* values of defaults, e.g. {3}
          NsIns,          \* possible sets of namespaced inputs,  e.g. {{}, {"a"}}
          NsOuts,         \* possible sets of namespaced outputs, e.g. {{}, {"y"}}
          Procs,          \* \subseteq {"none", "map"}
          Styles,         \* \subseteq AllStyles
          AliasDefaults,  \* BOOLEAN
          MaxSteps

None      == -1           \* the value None in a caller's dictionary
Scribble  == 99           \* what a caller writes in place into an array it got back
BaseIn    == {"a", "b"}
BaseOut   == {"y", "z"}
ExtraName == "q"          \* a name that is in no grammar
AllStyles == {"ret", "retplain", "write", "writeplain", "retlocal", "writelocal"}
\* the styles the documentation of _run describes: return the outputs with or without the
\* namespace prefixes, or return None after updating the data of the discipline
Documented == {"ret", "retplain", "write"}

WithNs(n) == CASE n = "a" -> "ns:a" [] n = "b" -> "ns:b" [] n = "y" -> "ns:y" [] n = "z" -> "ns:z"
Local(n)  == CASE n = "a" -> "la" [] n = "b" -> "lb" [] n = "y" -> "ly" [] n = "z" -> "lz"
LocalNames == {Local(n) : n \in BaseIn \cup BaseOut}
Global(l) == CHOOSE n \in BaseIn \cup BaseOut : Local(n) = l

VARIABLES cfg,          \* [nsIn, nsOut, proc, style] chosen in Init, constant afterwards
          defaults,     \* input-grammar name -> value   (partial)
          outDefaults,  \* output-grammar name -> value  (partial)
          virtual,      \* virtual_execution
          data,         \* io.data (name -> value) as left by the last call
          nRuns,        \* number of times the body ran
          nExec,        \* execution_statistics.n_executions
          last,         \* what the last call did (see NoCall)
          steps
vars == <<cfg, defaults, outDefaults, virtual, data, nRuns, nExec, last, steps>>

Empty == <<>>                                  \* the function with an empty domain
G(n, ns) == IF n \in ns THEN WithNs(n) ELSE n   \* grammar name of a base name
InG  == {G(n, cfg.nsIn) : n \in BaseIn}
OutG == {G(n, cfg.nsOut) : n \in BaseOut}
BaseOfIn(g)  == CHOOSE n \in BaseIn  : G(n, cfg.nsIn) = g
BaseOfOut(g) == CHOOSE n \in BaseOut : G(n, cfg.nsOut) = g
Sum(f) == FoldFunction(LAMBDA x, y : x + y, 0, f)
Merge(f, g) == [k \in DOMAIN f \cup DOMAIN g |-> IF k \in DOMAIN g THEN g[k] ELSE f[k]]   \* g wins
Restrict2(f, S) == [k \in DOMAIN f \cap S |-> f[k]]

NoCall == [act |-> "none", outcome |-> "none", ran |-> FALSE, seen |-> Empty, ret |-> Empty,
           prepared |-> Empty, fromDefault |-> {}]

\* what a caller may pass: any subset of the input names + the foreign name (+ the bare name of a
\* namespaced input, which is then a foreign name too), each absent / None / a value
GivenNames == InG \cup {ExtraName} \cup {n \in BaseIn : n \in cfg.nsIn}
\* constant supersets, so that TLC labels every transition with its parameters
AllInNames == BaseIn \cup {WithNs(n) : n \in BaseIn}
AllGivens == UNION {[S -> Vals \cup {None}] : S \in SUBSET (AllInNames \cup {ExtraName})}

Has(g, n) == n \in DOMAIN g /\ g[n] # None

\* ---- io.prepare_input_data
PreparedDom(given) == {n \in InG : Has(given, n) \/ n \in DOMAIN defaults}
Prepared(given) == [n \in PreparedDom(given) |-> IF Has(given, n) THEN given[n] ELSE defaults[n]]
FromDefault(given) == {n \in PreparedDom(given) : ~Has(given, n)}
\* the input grammars of the harness require every input
ValidIn(p) == InG \subseteq DOMAIN p

\* ---- data processor (NameMapping {global: local}) : renames EVERY key; a key it does not know -> KeyError
PreOK(d)  == cfg.proc = "none" \/ DOMAIN d \subseteq InG \cup OutG
Pre(d)    == IF cfg.proc = "none" THEN d ELSE [l \in {Local(BaseOfIn(n)) : n \in DOMAIN d} |-> d[G(Global(l), cfg.nsIn)]]
PostOK(d) == cfg.proc = "none" \/ DOMAIN d \subseteq LocalNames
Post(d)   == IF cfg.proc = "none" THEN d ELSE [g \in {Global(l) : l \in DOMAIN d} |-> d[Local(g)]]

\* ---- what _run receives: the data itself, or - when an input is namespaced - the inputs with bare names
Seen(d) == IF cfg.nsIn = {} THEN d
           ELSE [m \in {BaseOfIn(n) : n \in DOMAIN d \cap InG} |-> d[G(m, cfg.nsIn)]]

\* ---- the body: y = 1 + sum of what it sees, z = 7, named as its style says
YVal(seen) == 1 + Sum(seen)
ZVal == 7
BodyVals(seen) == [n \in BaseOut |-> IF n = "y" THEN YVal(seen) ELSE ZVal]
\* update_output_data(returned): a key that is an output name is stored; a bare name that has a
\* namespaced version is stored under it; anything else is ignored
UpdateOutputs(d, returned) ==
  LET keep == {k \in DOMAIN returned : k \in OutG \/ (k \in BaseOut /\ k \in cfg.nsOut)}
      tgt(k) == IF k \in OutG THEN k ELSE WithNs(k)
  IN Merge(d, [t \in {tgt(k) : k \in keep} |-> returned[CHOOSE k \in keep : tgt(k) = t]])
AfterBody(d, seen) ==
  LET v == BodyVals(seen) IN
  CASE cfg.style = "ret"        -> UpdateOutputs(d, [g \in OutG |-> v[BaseOfOut(g)]])
    [] cfg.style = "retplain"   -> UpdateOutputs(d, v)
    [] cfg.style = "retlocal"   -> UpdateOutputs(d, [l \in {Local(n) : n \in BaseOut} |-> v[Global(l)]])
    [] cfg.style = "write"      -> Merge(d, [g \in OutG |-> v[BaseOfOut(g)]])
    [] cfg.style = "writeplain" -> Merge(d, v)
    [] cfg.style = "writelocal" -> Merge(d, [l \in {Local(n) : n \in BaseOut} |-> v[Global(l)]])
ValidOut(d) == OutG \subseteq DOMAIN d

TypeOK ==
  /\ cfg.nsIn \in NsIns /\ cfg.nsOut \in NsOuts /\ cfg.proc \in Procs /\ cfg.style \in Styles
  /\ DOMAIN defaults \subseteq InG /\ DOMAIN outDefaults \subseteq OutG
  /\ virtual \in BOOLEAN /\ nRuns \in Nat /\ nExec \in Nat /\ steps \in 0..MaxSteps

Init ==
  /\ cfg \in {c \in [nsIn : NsIns, nsOut : NsOuts, proc : Procs, style : Styles] :
                \* a name mapping knows bare names only; local styles need a mapping
                /\ (c.proc = "map" => c.nsIn = {} /\ c.nsOut = {})
                /\ (c.style \in {"retlocal", "writelocal"} => c.proc = "map")}
  /\ defaults = Empty /\ outDefaults = Empty /\ virtual = FALSE /\ data = Empty
  /\ nRuns = 0 /\ nExec = 0 /\ last = NoCall /\ steps = 0

Step == steps < MaxSteps /\ steps' = steps + 1

SetDefault(n, v) ==
  /\ Step /\ n \in InG /\ v \in DefVals
  /\ defaults' = Merge(defaults, [k \in {n} |-> v])
  /\ last' = [NoCall EXCEPT !.act = "SetDefault"]
  /\ UNCHANGED <<cfg, outDefaults, virtual, data, nRuns, nExec>>
DelDefault(n) ==
  /\ Step /\ n \in DOMAIN defaults
  /\ defaults' = Restrict2(defaults, DOMAIN defaults \ {n})
  /\ last' = [NoCall EXCEPT !.act = "DelDefault"]
  /\ UNCHANGED <<cfg, outDefaults, virtual, data, nRuns, nExec>>
SetOutDefaults(full) ==      \* default_output_data = {...}: all the outputs, or only y
  /\ Step
  /\ outDefaults' = [g \in (IF full THEN OutG ELSE {G("y", cfg.nsOut)}) |-> 5]
  /\ last' = [NoCall EXCEPT !.act = "SetOutDefaults"]
  /\ UNCHANGED <<cfg, defaults, virtual, data, nRuns, nExec>>
SetVirtual(b) ==
  /\ Step /\ virtual # b /\ virtual' = b
  /\ last' = [NoCall EXCEPT !.act = "SetVirtual"]
  /\ UNCHANGED <<cfg, defaults, outDefaults, data, nRuns, nExec>>

\* the outcome record of an execute
Res(outcome, ran, seen, ret, given) ==
  [act |-> "Execute", outcome |-> outcome, ran |-> ran, seen |-> seen, ret |-> ret,
   prepared |-> Prepared(given), fromDefault |-> FromDefault(given)]

Execute(given) ==
  /\ Step /\ DOMAIN given \subseteq GivenNames
  /\ LET p == Prepared(given) IN
     IF ~ValidIn(p)
     THEN \* InvalidDataError before anything is touched
          /\ last' = Res("invalid_input", FALSE, Empty, Empty, given)
          /\ UNCHANGED <<data, nRuns, nExec>>
     ELSE LET d0 == Pre(p)            \* PreOK(p) holds: p has input names only
              seen == Seen(d0)
              ran == ~virtual
              d1 == IF virtual THEN UpdateOutputs(d0, outDefaults) ELSE AfterBody(d0, seen)
          IN /\ nRuns' = IF ran THEN nRuns + 1 ELSE nRuns
             /\ nExec' = IF ran THEN nExec + 1 ELSE nExec
             /\ IF ~PostOK(d1)
                THEN \* KeyError raised by the post-processing: the data stay as the body left them
                     /\ data' = d1
                     /\ last' = Res("key_error", ran, IF ran THEN seen ELSE Empty, Empty, given)
                ELSE LET d2 == Post(d1) IN
                     /\ data' = d2
                     /\ (IF ValidOut(d2)
                         THEN last' = Res("ok", ran, IF ran THEN seen ELSE Empty, d2, given)
                         ELSE last' = Res("invalid_output", ran, IF ran THEN seen ELSE Empty, Empty, given))
  /\ UNCHANGED <<cfg, defaults, outDefaults, virtual>>

\* The caller edits in place every array of the dictionary the last successful call returned.
ScribbleReturned ==
  /\ Step /\ last.act = "Execute" /\ last.outcome = "ok"
  /\ data' = [k \in DOMAIN data |-> Scribble]       \* io.data IS the returned dictionary
  /\ (IF AliasDefaults
      THEN /\ defaults' = [n \in DOMAIN defaults |-> IF n \in last.fromDefault THEN Scribble ELSE defaults[n]]
           /\ outDefaults' = [g \in DOMAIN outDefaults |-> IF ~last.ran THEN Scribble ELSE outDefaults[g]]
      ELSE UNCHANGED <<defaults, outDefaults>>)
  /\ last' = [NoCall EXCEPT !.act = "ScribbleReturned"]
  /\ UNCHANGED <<cfg, virtual, nRuns, nExec>>

Next ==
  \/ \E n \in AllInNames, v \in DefVals : SetDefault(n, v)
  \/ \E n \in AllInNames : DelDefault(n)
  \/ \E f \in BOOLEAN : SetOutDefaults(f)
  \/ \E b \in BOOLEAN : SetVirtual(b)
  \/ \E given \in AllGivens : Execute(given)
  \/ ScribbleReturned
Spec == Init /\ [][Next]_vars

\* ----------------------------------------------------------------- the contract
IsExec == last.act = "Execute"
\* the body receives exactly the prepared inputs, under the names it knows (bare / local)
BodySeesPrepared ==
  (IsExec /\ last.ran) =>
    LET p == last.prepared
        nameOf(n) == IF cfg.proc = "map" THEN Local(BaseOfIn(n)) ELSE IF cfg.nsIn = {} THEN n ELSE BaseOfIn(n)
    IN /\ DOMAIN last.seen = {nameOf(n) : n \in DOMAIN p}
       /\ \A n \in DOMAIN p : last.seen[nameOf(n)] = p[n]
\* a foreign key or a None never reaches the body, a missing input is replaced by its default
PreparedMeaning ==
  IsExec => /\ DOMAIN last.prepared \subseteq InG
            /\ \A n \in DOMAIN last.prepared : last.prepared[n] # None
\* a successful call returns the prepared inputs and the outputs, under the grammar names
OkReturn ==
  (IsExec /\ last.outcome = "ok") =>
    /\ DOMAIN last.ret \cap InG = DOMAIN last.prepared
    /\ \A n \in DOMAIN last.prepared : last.ret[n] = last.prepared[n]
    /\ OutG \subseteq DOMAIN last.ret
    /\ (last.ran => /\ last.ret[G("y", cfg.nsOut)] = 1 + Sum(last.prepared)
                    /\ last.ret[G("z", cfg.nsOut)] = ZVal)
    /\ (~last.ran => \A g \in OutG : last.ret[g] = 5)
\* a rejected call changes nothing
RejectKeepsState ==
  [][(last'.act = "Execute" /\ last'.outcome = "invalid_input") => (data' = data /\ nRuns' = nRuns /\ nExec' = nExec)]_vars
\* only valid inputs are run; the body runs exactly when the call is not virtual and the inputs are valid
RunsWhenValid ==
  IsExec => (last.ran <=> (ValidIn(last.prepared) /\ ~virtual))
Counts == nExec = nRuns
\* every documented way of handing the outputs over gives the same successful call (refuted with a
\* NameMapping processor: a design-level observation, see the harness)
DocumentedStylesWork ==
  (IsExec /\ cfg.style \in Documented /\ last.ran) => last.outcome = "ok"
\* with a name mapping the body sees local names: handing local names back should work too
LocalStylesWork ==
  (IsExec /\ cfg.proc = "map" /\ cfg.style \in {"retlocal", "writelocal"} /\ last.ran) => last.outcome = "ok"
\* the defaults are changed by SetDefault / DelDefault / SetOutDefaults only (refuted when AliasDefaults)
DefaultsStable ==
  [][(defaults' # defaults \/ outDefaults' # outDefaults) => last'.act \in {"SetDefault", "DelDefault", "SetOutDefaults"}]_vars
=============================================================================
