-------------------------------- MODULE Driver --------------------------------
(***************************************************************************)
(* The evaluation-budget protocol between a driver (optimizer or DOE) and  *)
(* an evaluation problem of gemseo.                                        *)
(*                                                                         *)
(*   base_driver_library.py   execute, _new_iteration_callback,            *)
(*                            _clear_listeners, _get_early_stopping_result *)
(*   evaluation_counter.py    current / maximum / maximum_is_reached       *)
(*   problem_function.py      _compute_output_db(_norm),                   *)
(*                            _compute_jacobian_db(_norm)                  *)
(*   database.py              store, store / new-iteration listeners       *)
(*   stop_criteria.py         termination exceptions, ftol/xtol/KKT testers*)
(*   opt/base_optimization_library.py  _pre_run (evaluation at x0),        *)
(*                            _new_iteration_callback (ftol/xtol)          *)
(*   doe/base_doe_library.py  _pre_run (samples, budget = #samples),       *)
(*                            _run (sequential loop, ValueError skips)     *)
(*                                                                         *)
(* The optimization algorithm is an UNCONSTRAINED ENVIRONMENT: action      *)
(* Ask(n, p) lets it request any function or Jacobian at any point in any  *)
(* order.  Only gemseo's responses are specified: hit / compute + store /  *)
(* MaxIterReachedException / NaN handling, the store -> store-listeners -> *)
(* new-iteration-listeners cascade, the conversion of termination          *)
(* exceptions into a result, the removal of the driver's listeners.        *)
(* gemseo's own request loops (all functions at x0 in the optimizers'      *)
(* pre-run, all functions at every sample of a DOE) are deterministic      *)
(* (AskOwn).                                                               *)
(*                                                                         *)
(* Composite algorithms (multi-start, augmented Lagrangian) run            *)
(* sub-drivers that turn the termination exception of a request into a     *)
(* sub-result and go on: action Resume (cfg.composite).  A wrapped library *)
(* that fails is turned by its wrapper into a plain TerminationCriterion:  *)
(* AlgoReturn("Other").  When gemseo stops the run the result is built     *)
(* from the recorded history; an algorithm that returns by itself may      *)
(* report its own point (linear solvers).                                  *)
(*                                                                         *)
(* A driver INSTANCE keeps the set `mine` of the new-iteration listeners   *)
(* it registered (its own callback "drv" and, when the problem has         *)
(* new-iteration observables, their evaluation "obs"); ClearListeners      *)
(* removes exactly these from the database and empties the set.  The       *)
(* instance may then be reused on ANOTHER problem (SwitchProblem: fresh     *)
(* database, counter and listener lists; `mine` is the instance's).        *)
(* MultiStart refuses per-level budgets that do not fit the global one     *)
(* (1 + n_start * opt_algo_max_iter <= max_iter): phase "rejected", the    *)
(* documented ValueError, after the evaluation at x0 only.                 *)
(*                                                                         *)
(* A point is an integer id; NanPt stands for a design vector containing a *)
(* NaN.  A name is <<function, "val" | "jac">>.  One request is served in  *)
(* sub-steps held in req.st:                                               *)
(*    none -> call -> store -> [listen] -> notify(k = 1..Len(nil)) -> none *)
(***************************************************************************)
EXTENDS Naturals, Sequences, FiniteSets, TLC

CONSTANTS
  Points,            \* point ids (positive naturals)
  NFuncs,            \* number of functions of the problem explored by TLC (objective + constraints)
  MaxExec,           \* consecutive executions explored on the same problem
  EnvAssumption,     \* environment assumption on the algorithm's requests: "none" | "valueFirst" |
                     \* "completesPoint" (see EnvOK)
  Switch             \* explore the reuse of the driver instance on another problem (SwitchProblem)

NanPt == 0
Range(s) == {s[i] : i \in 1..Len(s)}
Causes == {"MaxIter", "Ftol", "Xtol", "Kkt", "MaxTime", "FunctionIsNan", "DesvarIsNan", "Normal", "Other"}

VARIABLES
  funcs,      \* the functions of the problem: sequence of names, the objective first (never changes)
  phase,      \* idle | prerun | running | terminated | built | cleared | postrun | crashed | rejected
  cfg,        \* settings of the current execution (see Execute)
  keys,       \* database keys in insertion order
  outs,       \* key -> set of names stored at that key (possibly {})
  cur, max,   \* evaluation counter
  nil,        \* new-iteration listeners of the database, in call order
  sl,         \* store listeners of the database, in call order
  mine,       \* new-iteration listeners registered by the driver instance (__new_iter_listeners)
  req,        \* the request being served
  todo,       \* gemseo's own pending requests at point `at` (pre-run at x0 / one DOE sample)
  at,
  samples, si,\* DOE: generated samples (duplicates possible) and index of the current one
  stop,       \* termination cause, "none" while running
  hasResult, xopt,   \* the returned OptimizationResult: built? / x_opt (NanPt: None)
  nexec,
  \* ---- history variables (the property is stated on them)
  filled0,    \* non-empty entries when Execute was called
  keys0,      \* keys when Execute was called
  nil0,       \* new-iteration listeners when Execute was called
  cur0,       \* counter after its initialisation by the pre-run
  origPts,    \* points at which an original callable was entered since Execute
  raised      \* points at which an original callable raised since Execute

dbv   == <<keys, outs>>
ctr   == <<cur, max>>
lst   == <<nil, sl, mine>>
doev  == <<samples, si>>
resv  == <<hasResult, xopt>>
histv == <<filled0, keys0, nil0, cur0>>
FuncSet == Range(funcs)
Obj == funcs[1]
Names == FuncSet \X {"val", "jac"}
ModelFuncs == SubSeq(<<"f", "c", "h">>, 1, NFuncs)
vars  == <<funcs, phase, cfg, keys, outs, cur, max, nil, sl, mine, req, todo, at, samples, si, stop,
           hasResult, xopt, nexec, filled0, keys0, nil0, cur0, origPts, raised>>

NoReq == [st |-> "none", n |-> <<Obj, "val">>, p |-> NanPt, k |-> 0]
NoCfg == [kind |-> "opt", N |-> 1, reset |-> TRUE, grad |-> FALSE, useDb |-> TRUE, storeJac |-> TRUE,
          stopIfNan |-> TRUE, maxTime |-> FALSE, kkt |-> FALSE, nx |-> 2, x0 |-> NanPt, samples |-> <<>>,
          composite |-> FALSE, obs |-> FALSE, sub |-> 0]

IsEmpty(p)  == IF p \in DOMAIN outs THEN outs[p] = {} ELSE TRUE     \* (IF: TLC evaluates both sides of a \/ in an action)
NonEmpty    == {p \in DOMAIN outs : outs[p] # {}}
NewFilled   == NonEmpty \ filled0
MaxReached  == max # 0 /\ cur >= max                      \* EvaluationCounter.maximum_is_reached
Vals        == [i \in 1..Len(funcs) |-> <<funcs[i], "val">>]
Jacs        == [i \in 1..Len(funcs) |-> <<funcs[i], "jac">>]
OwnReqs(j)  == IF j THEN Vals \o Jacs ELSE Vals           \* evaluate_functions: outputs, then Jacobians
Without(s, S) == SelectSeq(s, LAMBDA e : e \notin S)
Dedup(s) == LET F[i \in 0..Len(s)] ==
                  IF i = 0 THEN <<>>
                  ELSE IF s[i] \in Range(F[i-1]) THEN F[i-1] ELSE Append(F[i-1], s[i])
            IN F[Len(s)]

InitRest ==
  /\ phase = "idle" /\ cfg = NoCfg
  /\ keys = <<>> /\ outs = <<>>
  /\ cur = 0 /\ max = 0
  /\ nil = <<"user">> /\ sl = <<"user">> /\ mine = {}
  /\ req = NoReq /\ todo = <<>> /\ at = NanPt
  /\ samples = <<>> /\ si = 0
  /\ stop = "none" /\ hasResult = FALSE /\ xopt = NanPt /\ nexec = 0
  /\ filled0 = {} /\ keys0 = <<>> /\ nil0 = <<>> /\ cur0 = 0 /\ origPts = {} /\ raised = {}

Init == funcs = ModelFuncs /\ InitRest

(* --- the user seeds an empty entry (database.store(x, {})) between executions --- *)
SeedEmpty(p) ==
  /\ phase \in {"idle", "postrun"} /\ p \notin DOMAIN outs
  /\ keys' = Append(keys, p) /\ outs' = (p :> {}) @@ outs
  /\ keys0' = Append(keys0, p)              \* not a key created by the run that has just ended
  /\ UNCHANGED <<funcs, phase, cfg, ctr, lst, req, todo, at, doev, stop, resv, nexec, filled0, nil0, cur0,
                 origPts, raised>>

(* --- BaseDriverLibrary.execute up to the end of _pre_run's bookkeeping ---
   listeners are registered (add_new_iter_listener refuses a listener already present), the
   counter gets its maximum and, unless reset_iteration_counters is false, restarts from 0.  *)
Execute(c) ==
  /\ phase \in {"idle", "postrun"} /\ nexec < MaxExec
  /\ cfg' = c
  /\ LET addObs == c.obs /\ "obs" \notin Range(nil)        \* problem.new_iter_observables.evaluate first
         nil1   == IF addObs THEN Append(nil, "obs") ELSE nil
         addDrv == "drv" \notin Range(nil1)
     IN  /\ nil'  = (IF addDrv THEN Append(nil1, "drv") ELSE nil1)
         /\ mine' = mine \cup (IF addObs THEN {"obs"} ELSE {}) \cup (IF addDrv THEN {"drv"} ELSE {})
  /\ sl' = (IF c.kind = "opt" /\ c.grad /\ c.kkt THEN Append(sl, "kkt") ELSE sl)
  /\ max' = c.N
  /\ cur' = (IF c.reset THEN 0 ELSE cur)
  /\ cur0' = cur'
  /\ filled0' = NonEmpty /\ keys0' = keys /\ nil0' = nil
  /\ origPts' = {} /\ raised' = {}
  /\ stop' = "none" /\ hasResult' = FALSE /\ xopt' = NanPt
  /\ req' = NoReq
  /\ IF c.kind = "opt"
       THEN todo' = OwnReqs(c.grad) /\ at' = c.x0 /\ samples' = <<>> /\ si' = 0
       ELSE todo' = <<>> /\ at' = NanPt /\ samples' = c.samples /\ si' = 0
  /\ phase' = "prerun"
  /\ UNCHANGED <<funcs, dbv, nexec>>

(* MultiStart._run: the per-level budgets must leave room for the evaluation at x0 *)
BadLevels(c) == c.kind = "opt" /\ c.composite /\ c.sub > c.N - 1
PreRunDone ==
  /\ phase = "prerun" /\ todo = <<>> /\ req.st = "none"
  /\ phase' = (IF BadLevels(cfg) THEN "rejected" ELSE "running")
  /\ UNCHANGED <<funcs, cfg, dbv, ctr, lst, req, todo, at, doev, stop, resv, nexec, histv, origPts, raised>>

Stop(cause) == phase' = "terminated" /\ stop' = cause /\ req' = NoReq /\ todo' = <<>>

(* --- ProblemFunction._compute_*_db*: the response to a request for name n at point p;
       rest = gemseo's own requests still to issue afterwards --- *)
Serve(n, p, rest) ==
  /\ IF p = NanPt
       THEN Stop("DesvarIsNan")                                   \* check on the input vector
     ELSE IF cfg.useDb /\ p \in DOMAIN outs /\ n \in outs[p]
       THEN req' = NoReq /\ todo' = rest /\ UNCHANGED <<phase, stop>>       \* hit: served from the database
     ELSE IF cfg.useDb /\ IsEmpty(p) /\ MaxReached
       THEN Stop("MaxIter")                                       \* MaxIterReachedException
     ELSE req' = [st |-> "call", n |-> n, p |-> p, k |-> 0] /\ todo' = rest /\ UNCHANGED <<phase, stop>>
  /\ UNCHANGED <<funcs, cfg, dbv, ctr, lst, at, doev, resv, nexec, histv, origPts, raised>>

(* environment: the optimization algorithm asks anything anywhere.
   Environment assumptions (never used to validate recorded runs; EnvAssumption = "none" there):
     "valueFirst"      DriverAsksValueWithJacobian: a Jacobian is only requested where the value is
                       already recorded (value-first algorithms: scipy);
     "completesPoint"  DriverCompletesPoint: the algorithm does not go to another point while an
                       original callable was entered at a point where nothing is recorded.  Under
                       this assumption the call budget holds with Jacobians that are not stored
                       (checked by TLC), and it INCLUDES the gradient-first algorithms (NLopt: Jacobian at a new
                       iterate, then the value there): a Jacobian request at an unseen point is a
                       request like any other, served by an original call while the budget lasts and
                       by MaxIterReachedException once it is spent (JacFirst below).                 *)
Unrecorded == {q \in origPts : IsEmpty(q)}
EnvOK(n, p) ==
  CASE EnvAssumption = "valueFirst"     -> (n[2] = "jac" => (p \in DOMAIN outs /\ <<n[1], "val">> \in outs[p]))
    [] EnvAssumption = "completesPoint" -> Unrecorded \subseteq {p}
    [] OTHER                            -> TRUE
Ask(n, p) ==
  /\ phase = "running" /\ cfg.kind = "opt" /\ req.st = "none"
  /\ EnvOK(n, p)
  /\ Serve(n, p, <<>>)
(* the same with constant-level parameters (TLC labels the transitions with them: the scripted replay
   reads the request of the behaviour from the label), split in two disjoint actions so that the
   coverage shows the gradient-first requests: a Jacobian asked at a point whose entry is empty *)
JacFirst(k, p) == k = "jac" /\ p # NanPt /\ IsEmpty(p)
AskAt(f, k, p)       == <<f, k>> \in Names /\ ~JacFirst(k, p) /\ Ask(<<f, k>>, p)
AskJacFirst(f, p)    == <<f, "jac">> \in Names /\ JacFirst("jac", p) /\ Ask(<<f, "jac">>, p)

(* gemseo's own loops: all functions at x0 (pre-run), all functions at the current sample (DOE) *)
AskOwn ==
  /\ phase \in {"prerun", "running"} /\ req.st = "none" /\ todo # <<>>
  /\ Serve(Head(todo), at, Tail(todo))

(* --- the original callable is entered; outcome: value | NaN | exception --- *)
OrigCall(outcome) ==
  /\ req.st = "call"
  /\ origPts' = origPts \cup {req.p}
  /\ LET stored == cfg.useDb /\ (req.n[2] = "val" \/ cfg.storeJac)
         goOn   == /\ req' = (IF stored THEN [req EXCEPT !.st = "store"] ELSE NoReq)
                   /\ UNCHANGED <<phase, stop, todo, raised>>
     IN CASE outcome = "ok"  -> goOn
          [] outcome = "nan" -> IF cfg.stopIfNan
                                  THEN Stop("FunctionIsNan") /\ UNCHANGED raised    \* nothing is stored
                                  ELSE goOn                                         \* the NaN is recorded
          [] outcome = "raise" ->
               /\ raised' = raised \cup {req.p}
               /\ IF cfg.kind = "doe"
                    THEN req' = NoReq /\ todo' = <<>> /\ UNCHANGED <<phase, stop>>  \* sample skipped
                    ELSE phase' = "crashed" /\ req' = NoReq /\ todo' = <<>> /\ UNCHANGED stop
  /\ UNCHANGED <<funcs, cfg, dbv, ctr, lst, at, doev, resv, nexec, histv>>

KktComplete(S) == \A f \in FuncSet : <<f, "val">> \in S /\ <<f, "jac">> \in S

(* --- Database.store: the entry is created or completed; the cascade starts --- *)
Store ==
  /\ req.st = "store"
  /\ LET p     == req.p
         was   == IsEmpty(p)
         outs2 == IF p \in DOMAIN outs THEN [outs EXCEPT ![p] = @ \cup {req.n}] ELSE (p :> {req.n}) @@ outs
     IN  /\ keys' = (IF p \in DOMAIN outs THEN keys ELSE Append(keys, p))
         /\ outs' = outs2
         /\ req' = IF "kkt" \in Range(sl) /\ KktComplete(outs2[p])
                     THEN [req EXCEPT !.st = "listen", !.k = IF was THEN 1 ELSE 0]
                   ELSE IF was /\ nil # <<>> THEN [req EXCEPT !.st = "notify", !.k = 1]
                   ELSE NoReq
  /\ UNCHANGED <<funcs, phase, cfg, ctr, lst, todo, at, doev, stop, resv, nexec, histv, origPts, raised>>

(* store listener of the optimizers: _KKTChecker, once value and Jacobian of every function are there *)
KktPass ==
  /\ req.st = "listen"
  /\ req' = (IF req.k = 1 /\ nil # <<>> THEN [req EXCEPT !.st = "notify", !.k = 1] ELSE NoReq)
  /\ UNCHANGED <<funcs, phase, cfg, dbv, ctr, lst, todo, at, doev, stop, resv, nexec, histv, origPts, raised>>
KktStop ==
  /\ req.st = "listen"
  /\ Stop("Kkt")
  /\ UNCHANGED <<funcs, cfg, dbv, ctr, lst, at, doev, resv, nexec, histv, origPts, raised>>

(* --- new-iteration listeners, in order; "drv" is the driver's _new_iteration_callback --- *)
LastHaveObjective(n) ==
  Len(keys) >= n /\ \A i \in (Len(keys) - n + 1)..Len(keys) : <<Obj, "val">> \in outs[keys[i]]
StopChoices ==
  {"none"} \cup (IF cfg.maxTime THEN {"MaxTime"} ELSE {})
           \cup (IF cfg.kind = "opt" /\ LastHaveObjective(cfg.nx) THEN {"Ftol"} ELSE {})
           \cup (IF cfg.kind = "opt" /\ Len(keys) >= cfg.nx THEN {"Xtol"} ELSE {})
Advance == req' = (IF req.k < Len(nil) THEN [req EXCEPT !.k = @ + 1] ELSE NoReq)
                  /\ UNCHANGED <<phase, stop, todo>>
NewIter(s) ==
  /\ req.st = "notify"
  /\ IF nil[req.k] = "drv"
       THEN /\ cur' = cur + 1 /\ UNCHANGED max                   \* counted, then time, ftol, xtol
            /\ s \in StopChoices
            /\ (IF s = "none" THEN Advance ELSE Stop(s))
       ELSE s = "none" /\ Advance /\ UNCHANGED ctr
  /\ UNCHANGED <<funcs, cfg, dbv, lst, at, doev, resv, nexec, histv, origPts, raised>>

(* --- DOE: the sequential loop over the samples --- *)
NextSample ==
  /\ phase = "running" /\ cfg.kind = "doe" /\ req.st = "none" /\ todo = <<>>
  /\ IF si < Len(samples)
       THEN /\ si' = si + 1 /\ at' = samples[si + 1] /\ todo' = OwnReqs(cfg.grad)
            /\ UNCHANGED <<phase, stop, req, samples>>
       ELSE Stop("Normal") /\ UNCHANGED <<at, doev>>
  /\ UNCHANGED <<funcs, cfg, dbv, ctr, lst, resv, nexec, histv, origPts, raised>>

(* --- the optimization algorithm returns by itself ("Normal"), or the wrapped library fails and the
       wrapper turns the failure into a plain TerminationCriterion ("Other") --- *)
AlgoReturn(c) ==
  /\ phase = "running" /\ cfg.kind = "opt" /\ req.st = "none"
  /\ c \in {"Normal", "Other"}
  /\ Stop(c)
  /\ UNCHANGED <<funcs, cfg, dbv, ctr, lst, at, doev, resv, nexec, histv, origPts, raised>>

(* --- a composite algorithm (multi-start, augmented Lagrangian) runs sub-drivers which convert the
       termination exception of a request into a sub-result: the algorithm goes on --- *)
(* (ResumeAny: the same for any optimizer - DriverTrace uses it when the log of a recorded run shows
   that a third-party library lost the termination exception and went on asking) *)
ResumeAny ==
  /\ phase = "terminated" /\ cfg.kind = "opt" /\ stop # "Normal"
  /\ phase' = "running" /\ stop' = "none"
  /\ UNCHANGED <<funcs, cfg, dbv, ctr, lst, req, todo, at, doev, resv, nexec, histv, origPts, raised>>
Resume == cfg.composite /\ ResumeAny

(* --- _get_result / _get_early_stopping_result: when gemseo stopped the run the result is built from
       the recorded history (which recorded point is the optimum is property C04; no optimum is
       reported only if no objective value was recorded); an algorithm that returns by itself may
       report its own point --- *)
Recorded == {p \in DOMAIN outs : <<Obj, "val">> \in outs[p]}
BuildResult(x) ==
  /\ phase = "terminated"
  /\ stop # "Normal" => (IF x = NanPt THEN Recorded = {} ELSE x \in DOMAIN outs)
  /\ hasResult' = TRUE /\ xopt' = x
  /\ phase' = "built"
  /\ UNCHANGED <<funcs, cfg, dbv, ctr, lst, req, todo, at, doev, stop, nexec, histv, origPts, raised>>

(* Database.clear_listeners removes each listener of the set with list.remove: a listener that is not
   on this database (left in the set by an execution on another problem) would be a ValueError *)
ClearListeners ==
  /\ phase = "built"
  /\ IF mine \subseteq Range(nil)
       THEN nil' = Without(nil, mine) /\ mine' = {} /\ phase' = "cleared"
       ELSE UNCHANGED <<nil, mine>> /\ phase' = "crashed"
  /\ UNCHANGED sl
  /\ UNCHANGED <<funcs, cfg, dbv, ctr, req, todo, at, doev, stop, resv, nexec, histv, origPts, raised>>

PostRun ==
  /\ phase = "cleared"
  /\ phase' = "postrun" /\ nexec' = nexec + 1
  /\ UNCHANGED <<funcs, cfg, dbv, ctr, lst, req, todo, at, doev, stop, resv, histv, origPts, raised>>

(* --- the driver instance is reused on another, fresh problem (its own database, counter, listeners) --- *)
SwitchProblem ==
  /\ Switch /\ phase = "postrun" /\ nexec < MaxExec
  /\ phase' = "idle"
  /\ keys' = <<>> /\ outs' = <<>> /\ cur' = 0 /\ max' = 0
  /\ nil' = <<"user">> /\ sl' = <<"user">> /\ UNCHANGED mine
  /\ filled0' = {} /\ keys0' = <<>> /\ nil0' = <<>> /\ cur0' = 0 /\ origPts' = {} /\ raised' = {}
  /\ stop' = "none" /\ hasResult' = FALSE /\ xopt' = NanPt
  /\ UNCHANGED <<funcs, cfg, req, todo, at, doev, nexec>>

(* ------------------------------------------------------------------ configurations explored *)
CONSTANTS MaxN, NXs, UseDbs, StoreJacs, WithNanPt, Composites, Kkts, Obss
PtsN == IF WithNanPt THEN Points \cup {NanPt} ELSE Points
SeqsOf(S, n) == [1..n -> S]
ModelCfgs ==
  { c \in
  { [kind |-> "opt", N |-> n, reset |-> r, grad |-> g, useDb |-> u, storeJac |-> sj, stopIfNan |-> TRUE,
     maxTime |-> TRUE, kkt |-> (g /\ k), nx |-> nx, x0 |-> x, samples |-> <<>>, composite |-> cp,
     obs |-> ob, sub |-> sb] :
       n \in 1..MaxN, r \in BOOLEAN, g \in BOOLEAN, u \in UseDbs, sj \in StoreJacs, nx \in NXs, x \in Points,
       cp \in Composites, k \in Kkts, ob \in Obss, sb \in {0, 1, MaxN} } : c.composite \/ c.sub = 0 }
  \cup
  { [kind |-> "doe", N |-> Len(s), reset |-> r, grad |-> g, useDb |-> u, storeJac |-> sj, stopIfNan |-> FALSE,
     maxTime |-> TRUE, kkt |-> FALSE, nx |-> nx, x0 |-> NanPt, samples |-> s, composite |-> FALSE,
     obs |-> ob, sub |-> 0] :
       s \in UNION {SeqsOf(PtsN, n) : n \in 1..MaxN}, r \in BOOLEAN, g \in BOOLEAN, u \in UseDbs,
       sj \in StoreJacs, nx \in NXs, ob \in Obss }

Next ==
  \/ \E c \in ModelCfgs : Execute(c)
  \/ SwitchProblem
  \/ \E p \in Points : SeedEmpty(p)
  \/ PreRunDone
  \/ \E f \in Range(ModelFuncs), k \in {"val", "jac"}, p \in PtsN : AskAt(f, k, p)
  \/ \E f \in Range(ModelFuncs), p \in PtsN : AskJacFirst(f, p)
  \/ AskOwn
  \/ \E o \in {"ok", "nan", "raise"} : OrigCall(o)
  \/ Store \/ KktPass \/ KktStop
  \/ \E s \in Causes \cup {"none"} : NewIter(s)
  \/ NextSample \/ Resume
  \/ \E c \in {"Normal", "Other"} : AlgoReturn(c)
  \/ \E x \in PtsN : BuildResult(x)
  \/ ClearListeners \/ PostRun
Spec == Init /\ [][Next]_vars

(* ------------------------------------------------------------------ the property *)
TypeOK ==
  /\ phase \in {"idle", "prerun", "running", "terminated", "built", "cleared", "postrun", "crashed", "rejected"}
  /\ req.st \in {"none", "call", "store", "listen", "notify"}
  /\ DOMAIN outs = Range(keys)
  /\ stop \in Causes \cup {"none"}
  /\ cur \in Nat /\ max \in Nat

Running == phase \notin {"idle"}

(* at most N new non-empty entries; the originals are entered at no more than N new points.
   Composite algorithms: a sub-driver that swallows a NaN stop has entered the original at a point
   that is not recorded; the number of such points is bounded by the sub-level budgets, which this
   (main-level) model does not have: they are held to the entries clause. *)
Budget ==
  (Running /\ cfg.useDb) =>
     /\ Cardinality(NewFilled) <= max
     /\ ~cfg.composite => Cardinality(origPts \ filled0) <= max

(* sharper, derived: what is left of the budget when the counter is not reset; the counter counts
   exactly the new iterations (the request in flight is counted when the driver's listener has run) *)
InFlight == IF req.st \in {"listen"} /\ req.k = 1 THEN 1
            ELSE IF req.st = "notify" /\ ("drv" \notin {nil[j] : j \in 1..(req.k - 1)}) THEN 1 ELSE 0
BudgetTight ==
  (Running /\ cfg.useDb) =>
     Cardinality(NewFilled) <= (IF max > cur0 THEN max - cur0 ELSE 0)
CounterExact ==
  (Running /\ cfg.useDb /\ "drv" \in Range(nil) /\ phase \in {"prerun", "running"}) =>
     cur + InFlight = cur0 + Cardinality(NewFilled)
CounterFinal ==
  (cfg.useDb /\ phase \in {"built", "cleared", "postrun"} /\ stop # "Kkt") =>
     cur = cur0 + Cardinality(NewFilled)

(* the run ends with a result built from the recorded history, whatever stopped it *)
AlwaysResult ==
  /\ phase = "postrun" => (hasResult /\ ((stop # "Normal" /\ xopt # NanPt) => xopt \in Range(keys)))
  /\ phase = "crashed" => raised # {}       \* only an exception of a user function escapes an optimizer

(* the driver's listeners are gone after the run: the next run counts once per iteration *)
NoListenerLeak ==
  /\ phase \in {"cleared", "postrun"} => nil = nil0
  /\ Cardinality({j \in 1..Len(nil) : nil[j] = "drv"}) <= 1

(* the driver's set holds listeners that are on the database, and nothing once the run is over: the
   instance can be reused on another problem *)
MineClean ==
  /\ mine \subseteq Range(nil)
  /\ phase \in {"idle", "cleared", "postrun"} => mine = {}

(* refused settings: nothing but the evaluation at x0 was recorded *)
RejectClean == phase = "rejected" => (BadLevels(cfg) /\ Cardinality(NewFilled) <= 1)

(* DOE: keys created by this run = first occurrences of the evaluated samples, in generation order
   (stated for user functions that do not raise at a point where they also return: a sample skipped at
   its first occurrence and recorded at a later duplicate takes the place of the duplicate - found by
   TLC with samples <<1, 2, 1>>); every sample already passed is recorded unless its evaluation raised *)
Seen == SubSeq(samples, 1, si)
DoeOrder ==
  (cfg.kind = "doe" /\ cfg.useDb /\ phase \in {"running", "terminated", "built", "cleared", "postrun"}) =>
     /\ (raised \cap DOMAIN outs = {}) =>
          Without(keys, Range(keys0)) =
             Dedup(SelectSeq(Seen, LAMBDA s : s \in DOMAIN outs /\ s \notin Range(keys0)))
     /\ \A j \in 1..Len(samples) :
          (j < si \/ (j = si /\ stop = "Normal")) =>
             (samples[j] \in DOMAIN outs \/ samples[j] \in raised \/ samples[j] = NanPt)
     /\ origPts \subseteq Range(Seen)

(* bound for the exhaustive runs *)
Bound == nexec <= MaxExec
================================================================================
