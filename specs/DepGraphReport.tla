----------------------------- MODULE DepGraphReport -----------------------------
(***************************************************************************)
(* C08, binding implementation -> specification.                           *)
(*                                                                         *)
(* REPORT_FILE is a JSON list; one entry per enumerated instance of        *)
(* DepGraph, holding the instance code TLC printed and what the real       *)
(* gemseo objects returned for it:                                         *)
(*   seq, dgseq   CouplingStructure(ds).sequence and                       *)
(*                DependencyGraph(ds).get_execution_sequence(), disciplines*)
(*                replaced by their position in the list passed to gemseo  *)
(*   strong, weak, all, scd, wcd, sgroups, outc, inc, finder               *)
(*                the coupling sets and derived queries                    *)
(*   runs         executions of MDAChain / MDOChain / MDOParallelChain /   *)
(*                MDOInitializationChain: status, output data, order;      *)
(*                kind "mdaopt": MDAChain under an option record chosen by *)
(*                TLC (SelectedOptions), with the sub coupling structures  *)
(*                passed and the structure each inner MDA ended up with    *)
(* TLC rebuilds the system from the code with the operators of DepGraph    *)
(* and evaluates the relation ValidSequence, the documented coupling sets  *)
(* and the simultaneous solution Mono on the reported values.  One state   *)
(* per report; the verdict (set of failed clauses) is printed.             *)
(***************************************************************************)
EXTENDS DepGraph, Json, IOUtils, TLCExt

Reports == JsonDeserialize(IOEnv.REPORT_FILE)
VARIABLE rid
R == Reports[rid]

FromJson(cd) ==
  IF cd.fam = "E"
  THEN [fam |-> "E", n |-> cd.n, adj |-> ToSet(cd.adj), order |-> cd.order, priv |-> cd.priv, dup |-> cd.dup]
  ELSE [fam |-> "N", n |-> cd.n, ins |-> [p \in 1..cd.n |-> ToSet(cd.ins[p])],
        outs |-> [p \in 1..cd.n |-> ToSet(cd.outs[p])]]

Fail(tag, clause, holds) == IF holds THEN {} ELSE {<<tag, clause>>}

SeqClauses(gg, tag, seq) ==
  Fail(tag, "WellFormed", WellFormed(gg, seq)) \cup
  (IF ~WellFormed(gg, seq) THEN {}
   ELSE Fail(tag, "Once", Once(gg, seq)) \cup
        Fail(tag, "GroupsAreSCCs", GroupsAreSCCs(gg, seq)) \cup
        Fail(tag, "ListingOrder", ListingOrder(gg, seq)) \cup
        Fail(tag, "Precedence", Precedence(gg, seq)))

CouplingClauses(gg, r) ==
  Fail("couplings", "Strong", ToSet(r.strong) = StrongC(gg)) \cup
  Fail("couplings", "Weak", ToSet(r.weak) = WeakC(gg)) \cup
  Fail("couplings", "All", ToSet(r.all) = AllC(gg)) \cup
  Fail("couplings", "NoDuplicateNames",
       Len(r.strong) = Cardinality(ToSet(r.strong)) /\ Len(r.weak) = Cardinality(ToSet(r.weak))
       /\ Len(r.all) = Cardinality(ToSet(r.all))) \cup
  Fail("couplings", "StrongDisciplines",
       ToSet(r.scd) = StrongDiscs(gg) /\ Len(r.scd) = Cardinality(StrongDiscs(gg))) \cup
  Fail("couplings", "WeakDisciplines",
       ToSet(r.wcd) = WeakDiscs(gg) /\ Len(r.wcd) = Cardinality(WeakDiscs(gg))) \cup
  Fail("couplings", "StrongGroups",
       {ToSet(r.sgroups[k]) : k \in 1..Len(r.sgroups)} = StrongGroups(gg) /\ Len(r.sgroups) = Cardinality(StrongGroups(gg))) \cup
  Fail("couplings", "OutputCouplings",     \* get_output_couplings(d, strong=True) = outputs of d among the strong couplings;
       LET st == StrongC(gg)  al == AllC(gg)  wk == WeakC(gg) IN   \* strong=False: documented "the weak ones", coded "all":
       \A p \in Pos(gg) : /\ ToSet(r.outc[p][1]) = gg.outs[p] \cap st    \* either reading is accepted (relation)
                          /\ \/ ToSet(r.outc[p][2]) = gg.outs[p] \cap al
                             \/ ToSet(r.outc[p][2]) = gg.outs[p] \cap wk) \cup
  Fail("couplings", "InputCouplings",
       LET st == StrongC(gg)  al == AllC(gg)  wk == WeakC(gg) IN
       \A p \in Pos(gg) : /\ ToSet(r.inc[p][1]) = gg.ins[p] \cap st
                          /\ \/ ToSet(r.inc[p][2]) = gg.ins[p] \cap al
                             \/ ToSet(r.inc[p][2]) = gg.ins[p] \cap wk) \cup
  Fail("couplings", "GraphEdges",          \* get_disciplines_couplings(): (from, to, names) = the labelled dependency graph
       /\ {<<r.edges[k][1], r.edges[k][2], ToSet(r.edges[k][3])>> : k \in 1..Len(r.edges)} = LabelledEdges(gg)
       /\ Len(r.edges) = Cardinality(LabelledEdges(gg))) \cup
  Fail("couplings", "FindDiscipline",      \* find_discipline(v): a discipline producing v (0: raised)
       \A k \in 1..Len(r.finder) :
          LET v == r.finder[k][1]  p == r.finder[k][2]
          IN IF Prod(gg, v) = {} THEN p = 0 ELSE p \in Prod(gg, v))

Exact(gg, run, mono) ==
  /\ run.integral
  /\ \A v \in Names(gg) : \E k \in 1..Len(run.names) : run.names[k] = v /\ run.vals[k] = mono[v]

(* an MDAChain run under one of the option records TLC selected for the instance (kind "mdaopt"):  *)
(* the option record, the user-provided sub coupling structures (positions of their disciplines),  *)
(* the inner MDAs (members, disciplines of the coupling structure each one uses), the log, the data *)
SetsOf(ss) == [k \in 1..Len(ss) |-> ToSet(ss[k])]
OptClauses(gg, r, run, mono) ==
  LET kind == run.tag
      seqOK == ValidSequence(gg, r.seq)
      plan == InnerMDAPlan(gg, r.seq, run.opt.sub)
  IN
  Fail(kind, "Applicable",          \* r.sel: the constants OptMod, NInner, SampleKey of the set the instance came from
       Consistent(gg) /\ run.opt \in SelectedOptionsP(gg, code, r.sel[1], r.sel[2], r.sel[3])) \cup
  Fail(kind, "UserStructures",      \* the harness passed the structures the specification names, or none
       seqOK => (SetsOf(run.user) = (IF run.opt.sub = "user" THEN UserStructures(gg, r.seq) ELSE <<>>))) \cup
  Fail(kind, "Runs", run.status = "ok") \cup
  (IF run.status # "ok" \/ ~Consistent(gg) THEN {}
   ELSE Fail(kind, "Exact", Exact(gg, run, mono)) \cup
        Fail(kind, "ExecutionOrder", ChainLogOK(gg, run.log, run.opt.init)) \cup
        Fail(kind, "InnerMDAs",
             /\ {ToSet(run.mdas[k]) : k \in 1..Len(run.mdas)} = StrongGroups(gg)
             /\ Len(run.mdas) = Cardinality(StrongGroups(gg))
             /\ \A k \in 1..Len(run.mdas) : Len(run.mdas[k]) = Cardinality(ToSet(run.mdas[k]))) \cup
        Fail(kind, "InnerMDAOrder",   \* inner_mdas: "the ordered MDAs": the k-th one solves the k-th group needing one
             seqOK => (SetsOf(run.mdas) = [k \in 1..Len(plan) |-> ToSet(plan[k].members)])) \cup
        Fail(kind, "InnerStructures", \* every inner MDA works with a coupling structure of its own group
             (seqOK /\ Len(run.mdas) = Len(plan) /\ Len(run.mdacs) = Len(plan)) =>
                \A k \in 1..Len(plan) : ToSet(run.mdacs[k]) = plan[k].structure))

RunClauses(gg, r, run, mono) ==
  LET kind == run.kind IN
  IF kind = "mdaopt" THEN OptClauses(gg, r, run, mono)
  ELSE IF kind \in {"mdachain", "mdachain_par", "mdachain_gs"} THEN
      Fail(kind, "Applicable", Consistent(gg)) \cup
      Fail(kind, "Runs", run.status = "ok") \cup
      (IF run.status # "ok" \/ ~Consistent(gg) THEN {}
       ELSE Fail(kind, "Exact", Exact(gg, run, mono)) \cup
            Fail(kind, "ExecutionOrder", RespectsDependencies(gg, run.log)) \cup
            Fail(kind, "InnerMDAs",       \* exactly one inner MDA per strongly coupled group
                 /\ {ToSet(run.mdas[k]) : k \in 1..Len(run.mdas)} = StrongGroups(gg)
                 /\ Len(run.mdas) = Cardinality(StrongGroups(gg))
                 /\ \A k \in 1..Len(run.mdas) : Len(run.mdas[k]) = Cardinality(ToSet(run.mdas[k]))))
  ELSE IF kind \in {"chain", "parchain"} THEN
      Fail(kind, "Applicable", Consistent(gg) /\ AllSingletons(gg)) \cup
      Fail(kind, "Runs", run.status = "ok") \cup
      (IF run.status # "ok" \/ ~(Consistent(gg) /\ AllSingletons(gg)) THEN {}
       ELSE Fail(kind, "Exact", Exact(gg, run, mono)) \cup
            Fail(kind, "ExecutionOrder", RespectsDependencies(gg, run.log)) \cup
            Fail(kind, "ChainGrammars",    \* inputs: what no earlier discipline of the chain produces; outputs: everything produced
                 (kind = "chain") =>
                    /\ ToSet(run.gin) = ChainInputs(gg, run.order, {})
                    /\ ToSet(run.gout) = GOut(gg, Pos(gg))))
  ELSE IF kind = "initchain" THEN
      Fail(kind, "Applicable", Consistent(gg)) \cup
      (IF ~Consistent(gg) THEN {}
       ELSE IF Acyclic(gg)
            THEN Fail(kind, "Runs", run.status = "ok") \cup
                 (IF run.status # "ok" THEN {}
                  ELSE Fail(kind, "OrderValid", ValidInitOrder(gg, run.order)) \cup
                       Fail(kind, "ExecutionOrder", RespectsDependencies(gg, run.log)) \cup
                       Fail(kind, "Exact", Exact(gg, run, mono)))
            ELSE Fail(kind, "RejectsCycle", run.status = "raised:ValueError"))
  ELSE {<<kind, "UnknownKind">>}

Failed(r) ==
  LET gg == g
      mono == IF Consistent(gg) THEN Mono(gg) ELSE <<>>
  IN Fail("structure", "Constructs", r.status = "ok") \cup
     (IF r.status # "ok" THEN {}
      ELSE SeqClauses(gg, "sequence", r.seq) \cup SeqClauses(gg, "dgsequence", r.dgseq)
           \cup CouplingClauses(gg, r)
           \cup UNION {RunClauses(gg, r, r.runs[k], mono) : k \in 1..Len(r.runs)})

RInit ==                        \* one behaviour per report
  /\ rid \in 1..Len(Reports)
  /\ code = FromJson(R.code)
  /\ g = Blank /\ pc = "reported" /\ cond = {} /\ stages = <<>>
Judge ==                        \* the state: the system rebuilt from the code, the reported sequence
  /\ pc = "reported"
  /\ g' = Decode(code)
  /\ stages' = IF R.status = "ok" THEN R.seq ELSE <<>>
  /\ pc' = "judged"
  /\ UNCHANGED <<rid, code, cond>>
RNext == Judge
Verdict == (pc = "judged") => PrintT(<<"VERDICT", R.id, Failed(R)>>)
================================================================================
