--------------------------- MODULE DesignSpaceViews ---------------------------
(* C02 - evaluates the View (expected results of every public accessor) and the   *)
(* algebra invariants of DesignSpace on a list of abstract states given as JSON   *)
(* (the abstract parts of the states of the DesignSpaceImpl graph, or the states   *)
(* visited by simulated behaviours).  Every state of the list is an initial state; *)
(* there are no transitions.                                                       *)
EXTENDS DesignSpace, Json, IOUtils
States == JsonDeserialize(IOEnv.STATES_FILE)      \* <<[vars |-> <<...>>, intNorm |-> BOOLEAN], ...>>
VARIABLE idx
VInit == /\ idx \in 1..Len(States)
         /\ vars = States[idx].vars
         /\ intNorm = States[idx].intNorm
VNext == UNCHANGED <<vars, intNorm, idx>>
EmitIdx == PrintT(<<"VIEW", idx, View>>)
===============================================================================
