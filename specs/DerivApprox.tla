----------------------------- MODULE DerivApprox -----------------------------
(* C16 - derivative approximations are accurate to their order and respect     *)
(* bounds.  Exact-arithmetic slice: every coordinate, bound and step is an     *)
(* integer multiple of 2^-K (S = 2^K), test functions are vector-valued        *)
(* polynomials of degree <= 3 with integer coefficients, so that every value   *)
(* is an integer at scale S^3, every difference quotient and every entry of    *)
(* a Jacobian an integer at scale S^2 -- and IEEE doubles compute the very     *)
(* same dyadic numbers.  Complex numbers are pairs <<re, im>> of such integers.*)
(*                                                                            *)
(* Instances are enumerated as initial states (one behaviour = one instance);  *)
(* the single action Compute evaluates the method on the instance:             *)
(*   - the perturbation matrix (one column per requested component; with a     *)
(*     design space the forward step is flipped, the centred half-steps are    *)
(*     dropped, whenever the perturbed point would leave [lb, ub]),            *)
(*   - the difference quotients BY DEFINITION (evaluation of the polynomial    *)
(*     at the perturbed points, real or complex),                              *)
(*   - the placement of the columns (component subsets, discipline level:      *)
(*     named input/output variables, requested subsets, x_indices, indices).   *)
(* Invariants: Shape, WithinBounds, OneComponent, ErrorEqualsOrderTerm (the     *)
(* quotient equals the symbolic derivative plus the closed-form truncation     *)
(* term of the method: f''.h/2 + f'''.h^2/6 forward, f'''.h^2/6 centred,       *)
(* -f'''.d^2/6 complex step with the effective step d = x_i.h; no integer      *)
(* division truncates), OrderBound (first / second order as inequalities),     *)
(* DiscShape (nested shapes, reflexivity of the Jacobian check).               *)
(* The calibrated behaviour of gemseo that is modelled as intended: complex    *)
(* step perturbs relatively (i.x_c.h, i.h when x_c = 0).  Known defects are    *)
(* NOT modelled (known_findings.d/C16.json): the flip/drop rule below is the   *)
(* one that keeps every point inside the bounds.                               *)
(* Steps are signed (a negative step is a backward / mirrored difference: the  *)
(* quotient is divided by the SIGNED distance of the two points) and, for      *)
(* complex step, may be handed over as h or as the imaginary number h.i (field *)
(* sf: the input form does not change the meaning).                            *)
(* Discipline level: the linearisation point X is the discipline's CURRENT     *)
(* input data; its default inputs (field dk: the same point, another point,    *)
(* arrays of other sizes) are not part of the meaning.  The mode in force is   *)
(* the LAST one set (fields prev/phow/how: a two-step history of mode          *)
(* settings).  check_jacobian is a specified function of the analytic Jacobian *)
(* (field ek: exact, the approximation itself, wrong in a stored entry, wrong  *)
(* by a structurally missing entry, wrong by an extra entry), whatever its     *)
(* representation (field rep) and the entry point (field entry).               *)
(* Histories on ONE approximator object: module DerivApproxHist.               *)
EXTENDS Integers, Sequences, FiniteSets, TLC

CONSTANTS K,      \* lattice exponent
          Level,  \* "approx": gradient approximators; "disc": discipline-level wrappers
          Rich,   \* FALSE: quick enumeration, TRUE: thorough enumeration
          Emit   \* TRUE: Compute prints the instance with the expected result (use -workers 1)

VARIABLES inst,   \* the instance (a record, see Init)
          phase,  \* "new" -> "done"
          jac,    \* approx level: rows x requested columns (scale S^2); disc level: <<>>
          pts,    \* set of evaluation points, each a sequence of <<re, im>> (scale S)
          out,    \* disc level: record of nested Jacobians / verdicts; approx level: <<>>
          aux     \* approx level: per entry, numerator / denominator of the quotient and the
                  \* symbolic derivatives (1st, 2nd/2, 3rd/6) at x: computed once, used by the invariants
vars == <<inst, phase, jac, pts, out, aux>>

S == 2^K
Abs(a) == IF a < 0 THEN -a ELSE a
ExactDiv(a, b) == IF b > 0 THEN a \div b ELSE (-a) \div (-b)
Divides(b, a) == b # 0 /\ (Abs(a) % Abs(b)) = 0

-------------------------------------------------------------------------------
(* Polynomials: a monomial is [c |-> coefficient, e |-> exponents]; a          *)
(* polynomial a sequence of monomials; a function a sequence of polynomials.   *)
M(c, e) == [c |-> c, e |-> e]
Funs == <<
  \* 1: R -> R^2
  [n |-> 1, f |-> << <<M(1, <<3>>), M(-2, <<2>>), M(1, <<1>>)>>,
                     <<M(2, <<2>>), M(-3, <<0>>)>> >>],
  \* 2: R^2 -> R^3
  [n |-> 2, f |-> << <<M(1, <<3, 0>>), M(2, <<1, 1>>), M(-1, <<0, 2>>)>>,
                     <<M(3, <<1, 2>>), M(1, <<0, 1>>)>>,
                     <<M(1, <<2, 1>>), M(-1, <<0, 3>>), M(2, <<0, 0>>)>> >>],
  \* 3: R^3 -> R^2   (the function of the calibration spike)
  [n |-> 3, f |-> << <<M(1, <<3, 0, 0>>), M(2, <<0, 1, 1>>), M(-1, <<0, 0, 2>>)>>,
                     <<M(3, <<1, 2, 0>>), M(1, <<0, 0, 1>>)>> >>],
  \* 4: R^3 -> R^3
  [n |-> 3, f |-> << <<M(1, <<1, 1, 1>>), M(1, <<0, 0, 3>>)>>,
                     <<M(1, <<0, 3, 0>>), M(-1, <<2, 0, 1>>)>>,
                     <<M(2, <<1, 0, 0>>), M(-1, <<0, 1, 0>>), M(1, <<0, 0, 0>>)>> >>],
  \* 5: R^2 -> R^1
  [n |-> 2, f |-> << <<M(1, <<2, 1>>), M(-2, <<0, 3>>), M(1, <<1, 0>>)>> >>]
>>

\* the catalogue is handed to the harness (which builds the Python callables from it)
ASSUME Emit => PrintT(<<"FUNS", Funs>>)

CMul(a, b) == <<a[1] * b[1] - a[2] * b[2], a[1] * b[2] + a[2] * b[1]>>
CAdd(a, b) == <<a[1] + b[1], a[2] + b[2]>>
CScale(s, a) == <<s * a[1], s * a[2]>>
RECURSIVE CPow(_, _)
CPow(z, k) == IF k = 0 THEN <<1, 0>> ELSE CMul(z, CPow(z, k - 1))
RECURSIVE SumTo(_, _)
SumTo(e, k) == IF k = 0 THEN 0 ELSE e[k] + SumTo(e, k - 1)
Deg(e) == SumTo(e, Len(e))
RECURSIVE MonoProd(_, _, _)
MonoProd(e, Z, k) == IF k = 0 THEN <<1, 0>> ELSE CMul(CPow(Z[k], e[k]), MonoProd(e, Z, k - 1))
\* value of c.z^e at scale S^deg (deg >= |e|), Z at scale S
MonoVal(mn, Z, deg) == CScale(mn.c * S^(deg - Deg(mn.e)), MonoProd(mn.e, Z, Len(Z)))
RECURSIVE PolySum(_, _, _, _)
PolySum(P, Z, deg, k) == IF k = 0 THEN <<0, 0>> ELSE CAdd(MonoVal(P[k], Z, deg), PolySum(P, Z, deg, k - 1))
PolyVal(P, Z, deg) == PolySum(P, Z, deg, Len(P))

\* the same for real points (plain integers: the common case)
RECURSIVE IPow(_, _)
IPow(a, k) == IF k = 0 THEN 1 ELSE a * IPow(a, k - 1)
RECURSIVE RMonoProd(_, _, _)
RMonoProd(e, X, k) == IF k = 0 THEN 1 ELSE IPow(X[k], e[k]) * RMonoProd(e, X, k - 1)
RMonoVal(mn, X, deg) == mn.c * S^(deg - Deg(mn.e)) * RMonoProd(mn.e, X, Len(X))
RECURSIVE RPolySum(_, _, _, _)
RPolySum(P, X, deg, k) == IF k = 0 THEN 0 ELSE RMonoVal(P[k], X, deg) + RPolySum(P, X, deg, k - 1)
RPolyVal(P, X, deg) == RPolySum(P, X, deg, Len(P))
ShiftR(X, c, off) == [k \in 1..Len(X) |-> IF k = c THEN X[k] + off ELSE X[k]]

\* symbolic partial derivative
DMono(mn, c) ==
  IF mn.e[c] = 0 THEN [c |-> 0, e |-> [k \in 1..Len(mn.e) |-> 0]]
  ELSE [c |-> mn.c * mn.e[c], e |-> [k \in 1..Len(mn.e) |-> IF k = c THEN mn.e[k] - 1 ELSE mn.e[k]]]
DPoly(P, c) == [k \in 1..Len(P) |-> DMono(P[k], c)]

RealPt(X) == [k \in 1..Len(X) |-> <<X[k], 0>>]
Shift(X, c, re, im) == [k \in 1..Len(X) |-> IF k = c THEN <<X[k] + re, im>> ELSE <<X[k], 0>>]

D1(P, X, c)  == RPolyVal(DPoly(P, c), X, 2)                               \* f'      . S^2
D2h(P, X, c) == RPolyVal(DPoly(DPoly(P, c), c), X, 1) \div 2              \* f''/2   . S
D3(P, X, c)  == RPolyVal(DPoly(DPoly(DPoly(P, c), c), c), X, 0) \div 6    \* f'''/6

-------------------------------------------------------------------------------
(* The methods.  I: instance with fields fid, meth, ds, lb, ub, X (at least).  *)
NIn(I)  == Funs[I.fid].n
NOut(I) == Len(Funs[I.fid].f)
HasDS(I) == I.ds # "none"

\* offsets of the two real evaluation points of component c for step h
\* (h may be negative: the centred half-step that would leave the box is dropped,
\* whichever of the two it is)
Leaves(I, c, off) == HasDS(I) /\ (I.X[c] + off > I.ub[c] \/ I.X[c] + off < I.lb[c])
PlusOff(I, c, h) ==
  IF I.meth = "fd" THEN (IF HasDS(I) /\ I.X[c] + h > I.ub[c] THEN -h ELSE h)
  ELSE (IF Leaves(I, c, h) THEN 0 ELSE h)
MinusOff(I, c, h) ==
  IF I.meth = "fd" THEN 0
  ELSE (IF Leaves(I, c, -h) THEN 0 ELSE -h)
\* complex step: relative perturbation i.x_c.h (i.h when x_c = 0)
ImagOff(I, c, h) == IF I.X[c] = 0 THEN h ELSE ExactDiv(I.X[c] * h, S)

PointsOf(I, c, h) ==
  IF I.meth = "cs" THEN {Shift(I.X, c, 0, ImagOff(I, c, h))}
  ELSE {Shift(I.X, c, PlusOff(I, c, h), 0), Shift(I.X, c, MinusOff(I, c, h), 0)}

QuotNum(I, P, c, h) ==
  IF I.meth = "cs" THEN PolyVal(P, Shift(I.X, c, 0, ImagOff(I, c, h)), 3)[2]
  ELSE RPolyVal(P, ShiftR(I.X, c, PlusOff(I, c, h)), 3)
       - RPolyVal(P, ShiftR(I.X, c, MinusOff(I, c, h)), 3)
QuotDen(I, c, h) ==
  IF I.meth = "cs" THEN ImagOff(I, c, h) ELSE PlusOff(I, c, h) - MinusOff(I, c, h)
\* the approximation of d f_r / d x_c, scale S^2
Quot(I, r, c, h) == ExactDiv(QuotNum(I, Funs[I.fid].f[r], c, h), QuotDen(I, c, h))

Exact1(I, r, c) == D1(Funs[I.fid].f[r], I.X, c)

\* per entry: numerator and denominator of the quotient, symbolic derivatives at x
AuxEntry(I, r, c, h) ==
  LET P == Funs[I.fid].f[r]
  IN [num |-> QuotNum(I, P, c, h), den |-> QuotDen(I, c, h),
      d1 |-> D1(P, I.X, c), d2h |-> D2h(P, I.X, c), d3 |-> D3(P, I.X, c)]
\* closed-form truncation term of the method, scale S^2
OrderTermA(I, c, h, a) ==
  IF I.meth = "cs" THEN -(a.d3 * ImagOff(I, c, h) * ImagOff(I, c, h))
  ELSE LET p == PlusOff(I, c, h)
           m == MinusOff(I, c, h)
       IN a.d2h * (p + m) + a.d3 * (p * p + p * m + m * m)

-------------------------------------------------------------------------------
(* Enumeration helpers                                                        *)
RECURSIVE AscSeqOf(_)
AscSeqOf(s) == IF s = {} THEN <<>>
              ELSE LET mn == CHOOSE a \in s : \A b \in s : a <= b
                   IN <<mn>> \o AscSeqOf(s \ {mn})
AscSeqs(n) == {AscSeqOf(s) : s \in (SUBSET (1..n)) \ {{}}}
InjSeqs(n) == {q \in UNION {[1..k -> 1..n] : k \in 1..n} :
                 \A a, b \in DOMAIN q : a # b => q[a] # q[b]}
Range(q) == {q[k] : k \in DOMAIN q}

UBT == <<S, 2 * S, S \div 2>>          \* physical upper bounds 1, 2, 1/2
LBT == <<-2 * S, -2 * S, -2 * S>>      \* physical lower bounds -2
Prefix(q, n) == [k \in 1..n |-> q[k]]
ScalarSteps == IF Rich THEN {S \div 8, S \div 16, S \div 32, S \div 64} ELSE {S \div 8, S \div 64}
VecTables == IF Rich THEN {<<S \div 16, S \div 8, S \div 64>>, <<S \div 64, S \div 32, S \div 8>>}
             ELSE {<<S \div 16, S \div 8, S \div 64>>}
\* signed steps: a negative scalar step (functions of <= 2 variables in the quick
\* enumeration), a vector of mixed signs (thorough)
NegSteps(n) == IF Rich \/ n <= 2 THEN {-(S \div 8)} ELSE {}
MixedTables == IF Rich THEN {<<-(S \div 16), S \div 8, -(S \div 64)>>} ELSE {}
StepChoices(n) == {[sk |-> "scalar", hc |-> <<h, h, h>>] : h \in ScalarSteps \cup NegSteps(n)}
                  \cup {[sk |-> "vector", hc |-> t] : t \in VecTables \cup MixedTables}

\* candidate coordinates of a component: on the upper bound, within one step of
\* it, exactly one step below, zero, on the lower bound, interior points
\* (|h| for a negative step; with a negative step the points from which the step
\* towards the LOWER bound would leave the box are not enumerated: the property
\* speaks of upper bounds only)
Cand(me, n, lb, ub, h) ==
  LET ah == Abs(h)
  IN {v \in (IF me = "cs"
             THEN {ub, 0, lb, -(S \div 2)} \cup (IF Rich THEN {S \div 2, -S} ELSE {})
             ELSE {ub, ub - ah \div 2, 0, lb}
                  \cup (IF Rich \/ n <= 2 THEN {ub - ah} ELSE {})
                  \cup (IF Rich THEN {ub - 2 * ah, lb + ah} ELSE {})) :
        lb <= v /\ v <= ub /\ (h < 0 /\ me # "cs" => v + h >= lb)}
PointSet(me, n, lb, ub, hc) ==
  {x \in [1..n -> UNION {Cand(me, n, lb[c], ub[c], hc[c]) : c \in 1..n}] :
     \A c \in 1..n : x[c] \in Cand(me, n, lb[c], ub[c], hc[c])}

DsOf(me) == {"none", "phys", "norm"}
ApproxFuns == IF Rich THEN {1, 2, 3, 4, 5} ELSE {1, 2, 3, 5}

InitApprox ==
  \E fid \in ApproxFuns, me \in {"fd", "cd", "cs"} :
  \E d \in DsOf(me), st \in StepChoices(Funs[fid].n) :
    LET n  == Funs[fid].n
        lb == IF d = "norm" THEN [c \in 1..n |-> 0] ELSE Prefix(LBT, n)
        ub == IF d = "norm" THEN [c \in 1..n |-> S] ELSE Prefix(UBT, n)
    IN \E ix \in (IF Rich /\ d = "none" THEN InjSeqs(n) ELSE AscSeqs(n)) :
       \E dflt \in (IF Len(ix) = n /\ ix = [k \in 1..n |-> k] THEN {TRUE, FALSE} ELSE {FALSE}) :
       \E x \in PointSet(me, n, lb, ub, st.hc) :
       \* the form in which a complex step is handed over: h, or the imaginary number h.i
       \E sf \in (IF me = "cs" /\ st.sk = "scalar" /\ st.hc[1] = S \div 64 /\ (Rich \/ n <= 2)
                  THEN {"real", "imag"} ELSE {"real"}) :
         inst = [lvl |-> "approx", fid |-> fid, meth |-> me, ds |-> d, lb |-> lb, ub |-> ub,
                 idx |-> ix, dflt |-> dflt, sk |-> st.sk, sf |-> sf,
                 hs |-> [j \in 1..Len(ix) |-> st.hc[ix[j]]], X |-> x]

-------------------------------------------------------------------------------
(* Discipline level: named variables over the components / rows of a function, *)
(* requested input and output names (ordered), x_indices over the requested    *)
(* flat input vector, per-variable component selections (check_jacobian).      *)
InLayouts  == IF Rich THEN {<<[nm |-> "a", cs |-> <<1, 2>>], [nm |-> "b", cs |-> <<3>>]>>,
                            <<[nm |-> "a", cs |-> <<1>>], [nm |-> "b", cs |-> <<2, 3>>]>>}
              ELSE {<<[nm |-> "a", cs |-> <<1, 2>>], [nm |-> "b", cs |-> <<3>>]>>}
OutLayout(fid) == IF Len(Funs[fid].f) = 2
                  THEN <<[nm |-> "y", cs |-> <<1>>], [nm |-> "z", cs |-> <<2>>]>>
                  ELSE <<[nm |-> "y", cs |-> <<1>>], [nm |-> "z", cs |-> <<2, 3>>]>>
\* requests: non-empty injective sequences of variable positions of a layout
Requests(lay) == InjSeqs(Len(lay))
RECURSIVE Concat(_, _, _)
Concat(lay, req, k) == IF k = 0 THEN <<>> ELSE Concat(lay, req, k - 1) \o lay[req[k]].cs
Flat(lay, req) == Concat(lay, req, Len(req))      \* components (rows) of the requested flat vector

DiscPoints == IF Rich THEN {<<S, S \div 2, -S>>, <<0, 0, 0>>, <<-2 * S, S \div 2, 0>>}
              ELSE {<<S, S \div 2, -S>>, <<0, S \div 2, 0>>}
DiscSteps(me) == {[sk |-> "scalar", hc |-> <<h, h, h>>] : h \in (IF Rich THEN {S \div 16, S \div 64} ELSE {S \div 16})}
                 \cup (IF me = "cs" THEN {} ELSE {[sk |-> "vector", hc |-> <<S \div 16, S \div 8, S \div 64>>]})
DiscFuns == IF Rich THEN {3, 4} ELSE {4}

\* selections: for every requested variable the selected components (positions
\* within the variable); "full" when every component of every variable is selected
Selections(lay, req) ==
  {s \in [1..Len(req) -> UNION {AscSeqs(Len(lay[req[k]].cs)) : k \in 1..Len(req)}] :
     \A k \in 1..Len(req) : s[k] \in AscSeqs(Len(lay[req[k]].cs))}
\* positions (in the requested flat vector) selected by s
RECURSIVE SelPos(_, _, _, _)
SelPos(lay, req, s, k) ==
  IF k = 0 THEN <<>>
  ELSE LET before == Len(Concat(lay, req, k - 1))
       IN SelPos(lay, req, s, k - 1) \o [j \in 1..Len(s[k]) |-> before + s[k][j]]

-------------------------------------------------------------------------------
(* Compute: approximator level                                                *)
AuxApprox(I) == [r \in 1..NOut(I) |-> [j \in 1..Len(I.idx) |-> AuxEntry(I, r, I.idx[j], I.hs[j])]]
JacFrom(I, A) == [r \in 1..NOut(I) |-> [j \in 1..Len(I.idx) |-> ExactDiv(A[r][j].num, A[r][j].den)]]
PtsApprox(I) == (IF I.meth = "fd" THEN {RealPt(I.X)} ELSE {})
                \cup UNION {PointsOf(I, I.idx[j], I.hs[j]) : j \in 1..Len(I.idx)}

(* Compute: discipline level.  The function seen by the approximator maps the  *)
(* requested flat input vector to the requested flat output vector; column p of*)
(* its Jacobian is computed iff p is in x_indices, the others are zero; the    *)
(* flat matrix is then split by variable.                                      *)
Member(q, v) == \E k \in DOMAIN q : q[k] = v
FlatEntry(I, rows, cols, a, p) ==
  IF Member(I.xi, p) THEN Quot(I, rows[a], cols[p], I.hc[cols[p]]) ELSE 0
Nested(I, entry(_, _)) ==
  \* [output variable position -> [input variable position -> matrix]]
  LET rows == Flat(I.ol, I.orq)
      cols == Flat(I.il, I.ir)
  IN [ko \in 1..Len(I.orq) |->
       [ki \in 1..Len(I.ir) |->
         LET r0 == Len(Concat(I.ol, I.orq, ko - 1))
             c0 == Len(Concat(I.il, I.ir, ki - 1))
         IN [a \in 1..Len(I.ol[I.orq[ko]].cs) |->
              [b \in 1..Len(I.il[I.ir[ki]].cs) |-> entry(r0 + a, c0 + b)]]]]
ApproxNested(I) ==
  LET rows == Flat(I.ol, I.orq)
      cols == Flat(I.il, I.ir)
      e(a, p) == FlatEntry(I, rows, cols, a, p)
  IN Nested(I, e)
ExactNested(I) ==
  LET rows == Flat(I.ol, I.orq)
      cols == Flat(I.il, I.ir)
      e(a, p) == Exact1(I, rows[a], cols[p])
  IN Nested(I, e)
\* numpy.allclose(analytic, approx, atol = rtol = 2^-th) on the selected entries
Close(an, ap, th) == Abs(an - ap) * 2^th <= S * S + Abs(ap)
Verdict(I, analytic, approx) ==
  \A ko \in 1..Len(I.orq), ki \in 1..Len(I.ir) :
    \A a \in Range(I.so[ko]), b \in Range(I.si[ki]) :
      Close(analytic[ko][ki][a][b], approx[ko][ki][a][b], I.th)
PtsDisc(I) ==
  LET cols == Flat(I.il, I.ir)
  IN (IF I.meth = "fd" THEN {RealPt(I.X)} ELSE {})
     \cup UNION {PointsOf(I, cols[I.xi[j]], I.hc[cols[I.xi[j]]]) : j \in 1..Len(I.xi)}


\* symbolic coefficients of the order term per entry (the harness evaluates the order
\* bound at the library's own default step when a mode is set without a step)
CoefNested(I) ==
  LET rows == Flat(I.ol, I.orq)
      cols == Flat(I.il, I.ir)
      e(a, p) == [d2h |-> D2h(Funs[I.fid].f[rows[a]], I.X, cols[p]),
                  d3  |-> D3(Funs[I.fid].f[rows[a]], I.X, cols[p]),
                  xc  |-> I.X[cols[p]]]
  IN Nested(I, e)

(* The analytic Jacobian handed to check_jacobian, by kind of error.  Positions *)
(* are <<output position, input position, row, column>> of the requested blocks.*)
Positions(I) ==
  {p \in (1..Len(I.orq)) \X (1..Len(I.ir)) \X (1..3) \X (1..3) :
     p[3] <= Len(I.ol[I.orq[p[1]]].cs) /\ p[4] <= Len(I.il[I.ir[p[2]]].cs)}
PosLess(p, q) ==
  \E k \in 1..4 : p[k] < q[k] /\ \A j \in 1..(k - 1) : p[j] = q[j]
ErrCands(I, ex) ==
  {p \in Positions(I) :
     IF I.ek = "extra" THEN ex[p[1]][p[2]][p[3]][p[4]] = 0 ELSE ex[p[1]][p[2]][p[3]][p[4]] # 0}
ErrPos(I, ex) ==
  LET Ps == ErrCands(I, ex)
  IN IF I.ep = "first" THEN CHOOSE p \in Ps : \A q \in Ps : p = q \/ PosLess(p, q)
     ELSE CHOOSE p \in Ps : \A q \in Ps : p = q \/ PosLess(q, p)
ErrSelected(I, p) == Member(I.so[p[1]], p[3]) /\ Member(I.si[p[2]], p[4])
AnalyticOf(I, ex, ap) ==
  IF I.ek = "exact" THEN ex
  ELSE IF I.ek = "self" THEN ap
  ELSE LET p == ErrPos(I, ex)
           v == IF I.ek = "stored" THEN ex[p[1]][p[2]][p[3]][p[4]] + S * S   \* off by 1
                ELSE IF I.ek = "missing" THEN 0                              \* not stored
                ELSE S * S                                                   \* stored, should be 0
       IN [ex EXCEPT ![p[1]][p[2]][p[3]][p[4]] = v]
-------------------------------------------------------------------------------
(* Discipline level: the instances.  A variant record carries the dimensions   *)
(* that do not belong to the meaning: the default inputs (dk), the two-step    *)
(* history of mode settings (prev set by phow, then meth set by how: "attr" =  *)
(* discipline.linearization_mode = m, the library's default step; "method" =   *)
(* set_jacobian_approximation(m, step)), the form of a complex step (sf), and  *)
(* for check_jacobian the kind of analytic Jacobian (ek), the position of its  *)
(* error (ep), its representation (rep) and the entry point (entry: "disc" =   *)
(* Discipline.check_jacobian, "approx" = DisciplineJacApprox.check_jacobian).  *)
Base == [dk |-> "same", rep |-> "dense", ek |-> "exact", ep |-> "first", entry |-> "disc",
         prev |-> "none", phow |-> "none", how |-> "method", sf |-> "real"]
FullSel(lay, req) == [k \in 1..Len(req) |-> [j \in 1..Len(lay[req[k]].cs) |-> j]]
LastSel(lay, req) == [k \in 1..Len(req) |-> <<Len(lay[req[k]].cs)>>]
FirstSel(lay, req) == [k \in 1..Len(req) |-> <<1>>]
DiscPoint1 == <<S, S \div 2, -S>>
Meths == {"fd", "cd", "cs"}

Variants(op, me, il, ol, st, x, ir, orq, dflt, si, so, th) ==
  LET redreq  == ir \in {<<1, 2>>, <<2, 1>>} /\ orq \in {<<1, 2>>, <<2>>}
      fullsel == si = FullSel(il, ir) /\ so = FullSel(ol, orq)
      redsel  == si \in {FullSel(il, ir), LastSel(il, ir)} /\ so \in {FullSel(ol, orq), FirstSel(ol, orq)}
      dflreq  == ir \in {<<1>>, <<2, 1>>} /\ orq \in {<<1, 2>>, <<2>>}
      step1   == st.sk = "scalar" /\ st.hc[1] = S \div 16
  IN IF op = "approx" THEN
       {Base}
       \cup {[Base EXCEPT !.dk = k] : k \in (IF dflt THEN {"vals", "sizes"} ELSE {})}
       \cup (IF me = "cs" /\ dflt THEN {[Base EXCEPT !.sf = "imag"]} ELSE {})
     ELSE IF op = "linearize" THEN
       {Base}
       \cup {[Base EXCEPT !.dk = k] : k \in {"vals", "sizes"}}
       \cup (IF step1 /\ ir = <<1, 2>> /\ orq \in {<<1, 2>>, <<2>>}
             THEN {[Base EXCEPT !.how = "attr"]}
                  \cup {[Base EXCEPT !.prev = p, !.phow = ph, !.how = hw] :
                          p \in Meths \ {me}, ph \in {"attr", "method"}, hw \in {"attr", "method"}}
             ELSE {})
     ELSE
       {[Base EXCEPT !.ek = e] : e \in {"exact", "self"}}
       \cup (IF th = 5 /\ x = DiscPoint1 /\ dflreq /\ redsel
             THEN {[Base EXCEPT !.dk = k, !.entry = en] : k \in {"vals", "sizes"}, en \in {"disc", "approx"}}
             ELSE {})
       \cup (IF th = 5 /\ x = DiscPoint1 /\ redreq /\ redsel
             THEN {[Base EXCEPT !.rep = r, !.ek = e, !.ep = q, !.entry = en] :
                     r \in {"dense", "csr", "csc"}, e \in {"exact", "stored", "missing", "extra"},
                     q \in (IF Rich THEN {"first", "last"} ELSE {"first"}), en \in {"disc", "approx"}}
                  \* a COO matrix cannot be subscripted: without `indices` only
                  \cup (IF fullsel
                        THEN {[Base EXCEPT !.rep = "coo", !.ek = e, !.entry = en] :
                                e \in {"exact", "stored", "missing", "extra"}, en \in {"disc", "approx"}}
                        ELSE {})
             ELSE {})

\* the default inputs of the discipline, per input variable (scale S)
DefaultsOf(dk, il, x) ==
  [k \in 1..Len(il) |->
     IF dk = "same" THEN [j \in 1..Len(il[k].cs) |-> x[il[k].cs[j]]]
     ELSE IF dk = "vals" THEN [j \in 1..Len(il[k].cs) |-> x[il[k].cs[j]] + S]
     ELSE [j \in 1..(Len(il[k].cs) + 1) |-> S * j]]

InitDisc ==
  \E fid \in DiscFuns, me \in Meths, il \in InLayouts, op \in {"approx", "linearize", "check"} :
  \E st \in DiscSteps(me), x \in DiscPoints :
  \E ir \in Requests(il), orq \in Requests(OutLayout(fid)) :
    LET ol   == OutLayout(fid)
        cols == Flat(il, ir)
        nc   == Len(cols)
    IN \E xi \in (IF op = "approx" THEN AscSeqs(nc) ELSE {[k \in 1..nc |-> k]}) :
       \E dflt \in (IF op = "approx" /\ Len(xi) = nc THEN {TRUE, FALSE} ELSE {Len(xi) = nc}) :
       \E si \in (IF op = "check" THEN Selections(il, ir) ELSE {FullSel(il, ir)}) :
       \E so \in (IF op = "check" THEN Selections(ol, orq) ELSE {FullSel(ol, orq)}) :
       \E th \in (IF op = "check" THEN {5, 12} ELSE {0}) :
       \E v \in Variants(op, me, il, ol, st, x, ir, orq, dflt, si, so, th) :
         LET I == [lvl |-> "disc", op |-> op, fid |-> fid, meth |-> me, ds |-> "none",
                   lb |-> LBT, ub |-> UBT, il |-> il, ol |-> ol, ir |-> ir, orq |-> orq,
                   xi |-> (IF op = "check" THEN SelPos(il, ir, si, Len(ir)) ELSE xi),
                   dflt |-> dflt, si |-> si, so |-> so, th |-> th,
                   sk |-> st.sk, hc |-> st.hc, X |-> x,
                   dk |-> v.dk, dfl |-> DefaultsOf(v.dk, il, x), rep |-> v.rep, ek |-> v.ek, ep |-> v.ep,
                   entry |-> v.entry, prev |-> v.prev, phow |-> v.phow, how |-> v.how, sf |-> v.sf]
         IN /\ (op = "linearize" => st.sk = "scalar")
            /\ (op = "check" => st.sk = "scalar")
            /\ (v.ek \in {"stored", "missing", "extra"} => ErrCands(I, ExactNested(I)) # {})
            /\ inst = I

Init == /\ (IF Level = "approx" THEN InitApprox ELSE InitDisc)
        /\ phase = "new" /\ jac = <<>> /\ pts = {} /\ out = <<>> /\ aux = <<>>

Compute ==
  /\ phase = "new"
  /\ phase' = "done"
  /\ inst' = inst
  /\ IF inst.lvl = "approx"
     THEN /\ aux' = AuxApprox(inst)
          /\ jac' = JacFrom(inst, aux')
          /\ pts' = PtsApprox(inst)
          /\ out' = <<>>
          /\ (Emit => PrintT(<<"CASE", inst, jac', pts'>>))
     ELSE /\ jac' = <<>>
          /\ aux' = <<>>
          /\ pts' = PtsDisc(inst)
          /\ LET ap == ApproxNested(inst)
                 ex == ExactNested(inst)
                 an == IF inst.op = "check" THEN AnalyticOf(inst, ex, ap) ELSE <<>>
             IN out' = [approx |-> ap, exact |-> ex, analytic |-> an,
                        coef |-> (IF inst.how = "attr" THEN CoefNested(inst) ELSE <<>>),
                        verdict |-> (IF inst.op = "check" THEN Verdict(inst, an, ap) ELSE TRUE)]
          /\ (Emit => PrintT(<<"DISC", inst, out', pts'>>))

Next == Compute
Spec == Init /\ [][Next]_vars

-------------------------------------------------------------------------------
(* Properties                                                                 *)
Done == phase = "done"
Shape ==
  Done /\ inst.lvl = "approx" =>
    /\ Len(jac) = NOut(inst)
    /\ \A r \in 1..NOut(inst) : Len(jac[r]) = Len(inst.idx)

\* no evaluation point leaves the design space (real parts)
WithinBounds ==
  Done /\ HasDS(inst) =>
    \A p \in pts : \A c \in 1..NIn(inst) : inst.lb[c] <= p[c][1] /\ p[c][1] <= inst.ub[c]

\* every evaluation point differs from x in at most one component, by at most one step
OneComponent ==
  Done => \A p \in pts : Cardinality({c \in 1..NIn(inst) : p[c] # <<inst.X[c], 0>>}) <= 1

\* quotient = derivative + closed-form order term (the theoretical bound met with
\* equality), and no integer division truncated; q is the value of the entry
EntryOK(I, c, h, q, a) ==
  /\ Divides(a.den, a.num)
  /\ q * a.den = a.num
  /\ q = a.d1 + OrderTermA(I, c, h, a)
  /\ (I.meth = "cs" /\ I.X[c] # 0 => Divides(S, I.X[c] * h))
\* (aux is left empty by the runs that dump the graph of DerivApproxHist: recomputed then)
AuxNow == IF aux = <<>> THEN AuxApprox(inst) ELSE aux
ErrorEqualsOrderTerm ==
  Done =>
    IF inst.lvl = "approx"
    THEN LET A == AuxNow
         IN \A r \in 1..NOut(inst), j \in 1..Len(inst.idx) :
              EntryOK(inst, inst.idx[j], inst.hs[j], jac[r][j], A[r][j])
    ELSE \A r \in 1..NOut(inst), c \in 1..NIn(inst) :
           EntryOK(inst, c, inst.hc[c], Quot(inst, r, c, inst.hc[c]), AuxEntry(inst, r, c, inst.hc[c]))

\* the order of the method, as inequalities: |error| <= C1.h (forward, and
\* centred next to a bound), <= C2.h^2 (centred, complex step with d = x.h)
OrderBound ==
  Done /\ inst.lvl = "approx" =>
    LET A == AuxNow IN
    \A r \in 1..NOut(inst), j \in 1..Len(inst.idx) :
      LET c == inst.idx[j]
          h == inst.hs[j]
          a == A[r][j]
          err == Abs(jac[r][j] - a.d1)
          d == IF inst.meth = "cs" THEN Abs(ImagOff(inst, c, h)) ELSE Abs(h)
          two == inst.meth = "cs" \/ (inst.meth = "cd" /\ a.den = 2 * h)
      IN IF two THEN err <= Abs(a.d3) * d * d
         ELSE err <= Abs(a.d2h) * d + Abs(a.d3) * d * d

\* discipline level: columns that are not requested are zero, the nested shapes
\* follow the variable sizes, the self-check succeeds
DiscShape ==
  Done /\ inst.lvl = "disc" =>
    /\ Len(out.approx) = Len(inst.orq)
    /\ \A ko \in 1..Len(inst.orq) :
         /\ Len(out.approx[ko]) = Len(inst.ir)
         /\ \A ki \in 1..Len(inst.ir) :
              /\ Len(out.approx[ko][ki]) = Len(inst.ol[inst.orq[ko]].cs)
              /\ \A a \in 1..Len(out.approx[ko][ki]) :
                   Len(out.approx[ko][ki][a]) = Len(inst.il[inst.ir[ki]].cs)
    /\ (inst.op = "check" /\ inst.ek = "self" => out.verdict)

\* the verdict of check_jacobian is a function of the WHOLE analytic Jacobian on the
\* selected entries: an analytic Jacobian that is wrong (in a stored entry, by a missing
\* entry, by an extra entry) at a selected position is refused; an error at a position
\* that is not selected does not change the verdict
CheckVerdictMeaning ==
  Done /\ inst.lvl = "disc" /\ inst.op = "check" /\ inst.ek \in {"stored", "missing", "extra"} =>
    LET p == ErrPos(inst, out.exact)
    IN IF ErrSelected(inst, p) THEN ~out.verdict
       ELSE out.verdict = Verdict(inst, out.exact, out.approx)
===============================================================================
