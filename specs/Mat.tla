--------------------------------- MODULE Mat ---------------------------------
(***************************************************************************)
(* Small exact INTEGER matrix algebra (C07, exact-arithmetic slice §3.3).  *)
(* A matrix is a sequence of rows, a row a sequence of integers.  All      *)
(* matrices handled here have >= 1 row and >= 1 column (variable sizes are *)
(* 1..2), except where an operator says otherwise.                         *)
(*                                                                         *)
(* The determinant is the Laplace expansion along the first row, the       *)
(* adjugate the transposed cofactor matrix, so that for a UNIMODULAR       *)
(* matrix (det = 1 or -1) the inverse is the integer matrix det * adj.     *)
(* Intended sizes: <= 4 routinely, <= 6 occasionally (cost n!).            *)
(***************************************************************************)
EXTENDS Integers, Sequences

NRows(A) == Len(A)
NCols(A) == IF Len(A) = 0 THEN 0 ELSE Len(A[1])
Shape(A) == <<NRows(A), NCols(A)>>

IsMat(A, m, n) == /\ Len(A) = m
                  /\ \A r \in 1..m : Len(A[r]) = n

Zero(m, n) == [r \in 1..m |-> [c \in 1..n |-> 0]]
Ident(n)   == [r \in 1..n |-> [c \in 1..n |-> IF r = c THEN 1 ELSE 0]]

MAdd(A, B)   == [r \in 1..NRows(A) |-> [c \in 1..NCols(A) |-> A[r][c] + B[r][c]]]
MSub(A, B)   == [r \in 1..NRows(A) |-> [c \in 1..NCols(A) |-> A[r][c] - B[r][c]]]
MNeg(A)      == [r \in 1..NRows(A) |-> [c \in 1..NCols(A) |-> 0 - A[r][c]]]
MScale(k, A) == [r \in 1..NRows(A) |-> [c \in 1..NCols(A) |-> k * A[r][c]]]
MT(A)        == [r \in 1..NCols(A) |-> [c \in 1..NRows(A) |-> A[c][r]]]

\* sum_{k=1..n} f[k], n >= 0
RECURSIVE SumTo(_, _)
SumTo(f, n) == IF n = 0 THEN 0 ELSE f[n] + SumTo(f, n - 1)

MMul(A, B) == [r \in 1..NRows(A) |-> [c \in 1..NCols(B) |->
                 SumTo([k \in 1..NCols(A) |-> A[r][k] * B[k][c]], NCols(A))]]

\* A^k, A square, k >= 0
RECURSIVE MPow(_, _)
MPow(A, k) == IF k = 0 THEN Ident(NRows(A)) ELSE MMul(A, MPow(A, k - 1))

IsZero(A) == \A r \in 1..NRows(A) : \A c \in 1..NCols(A) : A[r][c] = 0

\* ---- blocks ------------------------------------------------------------
HCat(A, B) == [r \in 1..NRows(A) |-> A[r] \o B[r]]      \* same number of rows
VCat(A, B) == A \o B                                    \* same number of columns

\* a non-empty sequence of matrices side by side / on top of each other
RECURSIVE HCatAll(_)
HCatAll(s) == IF Len(s) = 1 THEN s[1] ELSE HCat(s[1], HCatAll(Tail(s)))
RECURSIVE VCatAll(_)
VCatAll(s) == IF Len(s) = 1 THEN s[1] ELSE VCat(s[1], VCatAll(Tail(s)))

\* block matrix from a non-empty sequence of non-empty block rows
BlockMat(bs) == VCatAll([i \in 1..Len(bs) |-> HCatAll(bs[i])])

\* the nr x nc sub-matrix whose top-left corner is at (r0+1, c0+1)
SubMat(A, r0, nr, c0, nc) == [r \in 1..nr |-> [c \in 1..nc |-> A[r0 + r][c0 + c]]]

\* ---- determinant, adjugate --------------------------------------------
DropAt(s, k) == [i \in 1..(Len(s) - 1) |-> IF i < k THEN s[i] ELSE s[i + 1]]
Minor(A, i, j) == [r \in 1..(Len(A) - 1) |-> DropAt(DropAt(A, i)[r], j)]
Sign(k) == IF k % 2 = 0 THEN 1 ELSE -1

RECURSIVE Det(_)
Det(A) == IF Len(A) = 1 THEN A[1][1]
          ELSE SumTo([j \in 1..Len(A) |->
                        IF A[1][j] = 0 THEN 0
                        ELSE Sign(1 + j) * A[1][j] * Det(Minor(A, 1, j))], Len(A))

Cofactor(A, i, j) == IF Len(A) = 1 THEN 1 ELSE Sign(i + j) * Det(Minor(A, i, j))
Adj(A) == [r \in 1..Len(A) |-> [c \in 1..Len(A) |-> Cofactor(A, c, r)]]

IsUnimodular(A) == Det(A) \in {1, -1}
\* inverse of a unimodular matrix: (1/det) adj = det * adj since det = 1 or -1
InvUnimod(A) == MScale(Det(A), Adj(A))
=============================================================================
