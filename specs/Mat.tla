--------------------------------- MODULE Mat ---------------------------------
(***************************************************************************)
(* Small exact INTEGER matrix algebra (C07, exact-arithmetic slice §3.3).  *)
(* A matrix is a sequence of rows, a row a sequence of integers.  All      *)
(* matrices handled here have >= 1 row and >= 1 column (variable sizes are *)
(* 1..2), except where an operator says otherwise.                         *)
(*                                                                         *)
(* The determinant is the Laplace expansion along the first row, the       *)
(* adjugate the transposed cofactor matrix, so that for a UNIMODULAR       *)
(* matrix (det = 1 or -1) the inverse is the integer matrix det * adj.     *)
(* Laplace costs n!: used as the DEFINITION; the working inverse is the    *)
(* fraction-free Gauss-Jordan elimination at the end of the module.        *)
(***************************************************************************)
EXTENDS Integers, Sequences, TLC

(* TLC evaluates a function constructor [x \in S |-> e] LAZILY and re-evaluates e at *)
(* every application: nested matrix expressions then cost exponential time.  Every   *)
(* operator below therefore builds its result with Mk, which forces (TLCEval) each    *)
(* row and the sequence of rows into explicit tuples.                                 *)
Mk(m, n, E(_, _)) == TLCEval([r \in 1..m |-> TLCEval([c \in 1..n |-> E(r, c)])])

NRows(A) == Len(A)
NCols(A) == IF Len(A) = 0 THEN 0 ELSE Len(A[1])
Shape(A) == <<NRows(A), NCols(A)>>

IsMat(A, m, n) == /\ Len(A) = m
                  /\ \A r \in 1..m : Len(A[r]) = n

Zero(m, n) == Mk(m, n, LAMBDA r, c : 0)
Ident(n)   == Mk(n, n, LAMBDA r, c : IF r = c THEN 1 ELSE 0)

MAdd(A, B)   == Mk(NRows(A), NCols(A), LAMBDA r, c : A[r][c] + B[r][c])
MSub(A, B)   == Mk(NRows(A), NCols(A), LAMBDA r, c : A[r][c] - B[r][c])
MNeg(A)      == Mk(NRows(A), NCols(A), LAMBDA r, c : 0 - A[r][c])
MScale(k, A) == Mk(NRows(A), NCols(A), LAMBDA r, c : k * A[r][c])
MT(A)        == Mk(NCols(A), NRows(A), LAMBDA r, c : A[c][r])

\* sum_{k=1..n} f[k], n >= 0
RECURSIVE SumTo(_, _)
SumTo(f, n) == IF n = 0 THEN 0 ELSE f[n] + SumTo(f, n - 1)

RECURSIVE DotTo(_, _, _, _, _)
DotTo(A, B, r, c, k) == IF k = 0 THEN 0 ELSE A[r][k] * B[k][c] + DotTo(A, B, r, c, k - 1)
MMul(A, B) == Mk(NRows(A), NCols(B), LAMBDA r, c : DotTo(A, B, r, c, NCols(A)))

\* A^k, A square, k >= 0
RECURSIVE MPow(_, _)
MPow(A, k) == IF k = 0 THEN Ident(NRows(A)) ELSE MMul(A, MPow(A, k - 1))

IsZero(A) == \A r \in 1..NRows(A) : \A c \in 1..NCols(A) : A[r][c] = 0

\* ---- blocks ------------------------------------------------------------
HCat(A, B) == TLCEval([r \in 1..NRows(A) |-> A[r] \o B[r]])      \* same number of rows
VCat(A, B) == A \o B                                    \* same number of columns

\* a non-empty sequence of matrices side by side / on top of each other
RECURSIVE HCatAll(_)
HCatAll(s) == IF Len(s) = 1 THEN s[1] ELSE HCat(s[1], HCatAll(Tail(s)))
RECURSIVE VCatAll(_)
VCatAll(s) == IF Len(s) = 1 THEN s[1] ELSE VCat(s[1], VCatAll(Tail(s)))

\* block matrix from a non-empty sequence of non-empty block rows
BlockMat(bs) == VCatAll(TLCEval([i \in 1..Len(bs) |-> HCatAll(bs[i])]))

\* the nr x nc sub-matrix whose top-left corner is at (r0+1, c0+1)
SubMat(A, r0, nr, c0, nc) == Mk(nr, nc, LAMBDA r, c : A[r0 + r][c0 + c])

\* ---- determinant, adjugate --------------------------------------------
DropAt(s, k) == TLCEval([i \in 1..(Len(s) - 1) |-> IF i < k THEN s[i] ELSE s[i + 1]])
Minor(A, i, j) == LET Ai == DropAt(A, i) IN TLCEval([r \in 1..(Len(A) - 1) |-> DropAt(Ai[r], j)])
Sign(k) == IF k % 2 = 0 THEN 1 ELSE -1

RECURSIVE Det(_)
RECURSIVE DetTo(_, _)
Det(A) == IF Len(A) = 1 THEN A[1][1] ELSE DetTo(A, Len(A))
\* the first j terms of the expansion along the first row
DetTo(A, j) == IF j = 0 THEN 0
               ELSE (IF A[1][j] = 0 THEN 0 ELSE Sign(1 + j) * A[1][j] * Det(Minor(A, 1, j)))
                    + DetTo(A, j - 1)

Cofactor(A, i, j) == IF Len(A) = 1 THEN 1 ELSE Sign(i + j) * Det(Minor(A, i, j))
Adj(A) == Mk(Len(A), Len(A), LAMBDA r, c : Cofactor(A, c, r))

\* ---- fraction-free Gauss-Jordan (Bareiss): the inverse in O(n^3) -------
(* [A | I] is reduced with the exact integer update                        *)
(*    M[i][j] <- (p M[i][j] - M[i][k] M[k][j]) / prev     (i # k)          *)
(* where p is the pivot of step k and prev the pivot of step k-1 (every    *)
(* entry is a minor of [A | I], the division is exact).  At the end the    *)
(* left half is d I with d = +-det A and the right half R = d A^-1.        *)
(* Rows are swapped when a pivot is zero; d = 0 reports a singular matrix. *)
(* The Laplace determinant and adjugate above remain the definitions;      *)
(* GJSound states the agreement (checked by TLC where it is used).         *)
SwapRows(M, a, b) == IF a = b THEN M
                     ELSE TLCEval([i \in 1..Len(M) |-> IF i = a THEN M[b] ELSE IF i = b THEN M[a] ELSE M[i]])
RECURSIVE GJ(_, _, _, _)
GJ(M, k, prev, n) ==
  IF k > n THEN [d |-> prev, m |-> M]
  ELSE LET cand == {r \in k..n : M[r][k] # 0}
       IN  IF cand = {} THEN [d |-> 0, m |-> M]
           ELSE LET r0 == CHOOSE r \in cand : \A q \in cand : r <= q
                    Ms == SwapRows(M, k, r0)
                    p  == Ms[k][k]
                    Mn == Mk(n, 2 * n, LAMBDA i, j :
                             IF i = k THEN Ms[k][j]
                             ELSE (p * Ms[i][j] - Ms[i][k] * Ms[k][j]) \div prev)
                IN  GJ(Mn, k + 1, p, n)
\* [d |-> +-det A (0 if singular), r |-> d A^-1]
GJInv(A) == LET n == Len(A)
                g == GJ(HCat(A, Ident(n)), 1, 1, n)
            IN  [d |-> g.d, r |-> SubMat(g.m, 0, n, n, n)]

IsUnimodular(A) == GJInv(A).d \in {1, -1}
\* inverse of a unimodular matrix: R / d = d R since d = 1 or -1
InvUnimod(A) == LET g == GJInv(A) IN MScale(g.d, g.r)
\* agreement with the definitions by cofactors
GJSound(A) == LET g == GJInv(A)
              IN  /\ g.d \in {Det(A), 0 - Det(A)}
                  /\ (g.d # 0 => MScale(Det(A), g.r) = MScale(g.d, Adj(A)))     \* r / d = adj / det

\* ---- exact rational results: an integer matrix over a common positive denominator ----
(* The inverse of ANY regular integer matrix, exactly: A^-1 = n / d with d = |det A| > 0    *)
(* (d = 0 reports a singular matrix; n is then meaningless).  A rational matrix is carried   *)
(* as the pair (integer numerator matrix, positive denominator); two of them are equal iff   *)
(* they are after cross-multiplication (no reduction to lowest terms is needed).             *)
MatAbs(x) == IF x < 0 THEN 0 - x ELSE x
QInv(A) == LET g == GJInv(A)
           IN  [n |-> MScale(IF g.d < 0 THEN -1 ELSE 1, g.r), d |-> MatAbs(g.d)]
QEq(na, da, nb, db) == MScale(db, na) = MScale(da, nb)
\* some entry of n / d is not an integer
NonInteger(n, d) == \E r \in 1..NRows(n) : \E c \in 1..NCols(n) : n[r][c] % d # 0
=============================================================================
