--------------------------------- MODULE Retry ---------------------------------
(* G04 (specification growth) - failure tolerance / retry around Discipline.execute.       *)
(*                                                                                          *)
(* This gemseo has NO RetryDiscipline and no time-out logic (nothing to bind Wait/timeout   *)
(* to).  What it has, and what this module specifies, is the protocol a retry needs:        *)
(*                                                                                          *)
(*  * the execution protocol of a discipline that may FAIL (BaseDiscipline.execute,         *)
(*    ExecutionStatus.handle, ExecutionStatistics.record_execution, the default             *)
(*    SimpleCache), through a stack of wrappers whose body executes the next discipline     *)
(*    (FilteringDiscipline, RemappingDiscipline, MDOChain): level 1 is the discipline the   *)
(*    caller executes, level Depth is the flaky body;                                       *)
(*  * the library's own failure-tolerant loop: the sequential sample loop of                *)
(*    BaseDOELibrary._run.  A ValueError is NON-FATAL (the sample is skipped, the loop goes *)
(*    on), any other exception is FATAL (it leaves the loop at once).  Before each sample   *)
(*    the function adapter (discipline_adapter._func_to_wrap) resets the status of the      *)
(*    discipline IT holds - the top level - to DONE: that is the only "retry" reset in the  *)
(*    code;                                                                                 *)
(*  * a reference retry client (n_trials attempts at one point, fatal classes re-raised at  *)
(*    once, the last exception raised after n_trials failures): gemseo has no such class,   *)
(*    the harness runs this 10-line loop over the real disciplines.                         *)
(*                                                                                          *)
(* One action = one public call (the library is sequential).  The environment chooses the   *)
(* outcome the body WOULD have at each call: "ok", "nonfatal" (ValueError), "fatal"         *)
(* (RuntimeError).  Outputs are named by the body run that produced them (<<pt, run>>):     *)
(* "the outputs returned are those of the successful attempt" is an equality of names.      *)
(*                                                                                          *)
(* Reset = which statuses the caller puts back to DONE before a call:                       *)
(*    "none"  nothing (bare execute),  "top"  level 1 only (what the DOE adapter does),     *)
(*    "all"   every level (failure isolation: what a retry needs).                          *)
(* Reset = "all" is the SPECIFICATION of the tolerant loops (a non-fatal failure costs its  *)
(* own sample / attempt and nothing else: StoredComplete, RetryEffective); Reset = "top" /  *)
(* "none" are the implementation-shaped variants the conformance binding replays on gemseo. *)
(* TLC refutes StoredComplete / RetryEffective for them as soon as Depth >= 2.              *)
EXTENDS Naturals, Sequences, FiniteSets, TLC

CONSTANTS Depths,     \* nesting depths explored, a subset of 1..3       } one initial state per
          Callers,    \* subset of {"direct", "doe", "retry"}             } (depth, caller, reset):
          Resets,     \* subset of {"none", "top", "all"}                 } they never change
          N,          \* calls / samples / n_trials
          Points,     \* input points of the "direct" caller, a subset of 1..9
          MaxResets   \* "direct": number of user resets  status := DONE  of one level

VARIABLES depth, caller, reset
cfgv == <<depth, caller, reset>>
Depth  == depth
Caller == caller
Reset  == reset
Levels   == 1..Depth
Outcomes == {"ok", "nonfatal", "fatal"}
NoEntry  == [pt |-> 0, run |-> 0]          \* empty SimpleCache (points are >= 1)
NoRes    == [kind |-> "none", cls |-> "none", origin |-> "none", lvl |-> 0, pt |-> 0, run |-> 0, env |-> "none"]

ASSUME /\ Depths \subseteq 1..3 /\ N \in 1..5 /\ Points \subseteq 1..9 /\ MaxResets \in Nat
       /\ Callers \subseteq {"direct", "doe", "retry"} /\ Resets \subseteq {"none", "top", "all"}

VARIABLES status,   \* [Levels -> {"DONE", "FAILED"}]  (RUNNING only inside a call)
          nexec,    \* [Levels -> Nat]   execution_statistics.n_executions
          cache,    \* [Levels -> entry] the last evaluation kept by the SimpleCache of the level
          runs,     \* number of runs of the body (inner executions)
          okRuns,   \* the runs of the body that succeeded
          i,        \* calls / samples / attempts made
          last,     \* what the last call returned or raised
          resets,   \* user resets made ("direct")
          pc,       \* "loop" | "returned" | "raised" | "gaveup"
          stored,   \* "doe": the samples stored in the database, in order
          hist      \* "doe"/"retry": the outcomes chosen so far
vars == <<depth, caller, reset, status, nexec, cache, runs, okRuns, i, last, resets, pc, stored, hist>>

Ret(p, r)        == [kind |-> "ret", cls |-> "none", origin |-> "none", lvl |-> 0, pt |-> p, run |-> r, env |-> "none"]
BodyExc(o)       == [kind |-> "exc", cls |-> (IF o = "fatal" THEN "RuntimeError" ELSE "ValueError"),
                     origin |-> "body", lvl |-> Depth, pt |-> 0, run |-> 0, env |-> "none"]
\* ExecutionStatus.value setter: RUNNING refused unless DONE - a ValueError
StatusExc(l)     == [kind |-> "exc", cls |-> "ValueError", origin |-> "status", lvl |-> l, pt |-> 0, run |-> 0,
                     env |-> "none"]

Cur == [status |-> status, nexec |-> nexec, cache |-> cache, runs |-> runs, okRuns |-> okRuns]

Body(p, o, S) ==
  LET r == S.runs + 1 IN
  IF o = "ok" THEN [res |-> Ret(p, r), st |-> [S EXCEPT !.runs = r, !.okRuns = @ \cup {r}]]
              ELSE [res |-> BodyExc(o), st |-> [S EXCEPT !.runs = r]]

(* BaseDiscipline.execute of level l at point p:                                            *)
(*   cache hit -> the cached data, nothing else is touched (not even the status);           *)
(*   status.handle(RUNNING, statistics.record_execution, _execute): refused unless DONE;    *)
(*   exception -> FAILED, re-raised as it is; the statistics and the cache are NOT updated; *)
(*   success   -> n_executions + 1, DONE, the evaluation replaces the cache entry.          *)
RECURSIVE Exec(_, _, _, _)
Exec(l, p, o, S) ==
  IF S.cache[l].pt = p THEN [res |-> Ret(p, S.cache[l].run), st |-> S]
  ELSE IF S.status[l] # "DONE" THEN [res |-> StatusExc(l), st |-> S]
  ELSE LET inner == IF l = Depth THEN Body(p, o, S) ELSE Exec(l + 1, p, o, S) IN
       IF inner.res.kind = "ret"
       THEN [res |-> inner.res,
             st  |-> [inner.st EXCEPT !.status[l] = "DONE", !.nexec[l] = @ + 1,
                                   !.cache[l] = [pt |-> p, run |-> inner.res.run]]]
       ELSE [res |-> inner.res, st |-> [inner.st EXCEPT !.status[l] = "FAILED"]]

Pre(S) == CASE Reset = "none" -> S
            [] Reset = "top"  -> [S EXCEPT !.status[1] = "DONE"]
            [] Reset = "all"  -> [S EXCEPT !.status = [l \in Levels |-> "DONE"]]

Install(S) == /\ status' = S.status /\ nexec' = S.nexec /\ cache' = S.cache
              /\ runs' = S.runs /\ okRuns' = S.okRuns
\* the result of a call, with the outcome the environment chose when (and only when) the body ran
Seen(r, o) == [r.res EXCEPT !.env = IF r.st.runs # runs THEN o ELSE "none"]

Init == /\ depth \in Depths /\ caller \in Callers /\ reset \in Resets
        /\ status = [l \in Levels |-> "DONE"] /\ nexec = [l \in Levels |-> 0]
        /\ cache = [l \in Levels |-> NoEntry] /\ runs = 0 /\ okRuns = {}
        /\ i = 0 /\ last = NoRes /\ resets = 0 /\ pc = "loop" /\ stored = <<>> /\ hist = <<>>

------------------------------------------------------------------------------------------
(* "direct": any history of executions of level 1 by a caller that catches everything,      *)
(* and of user resets of the status of one level.                                           *)
Call(p, o) ==
  /\ Caller = "direct" /\ i < N
  /\ LET r == Exec(1, p, o, Pre(Cur)) IN Install(r.st) /\ last' = Seen(r, o)
  /\ i' = i + 1
  /\ UNCHANGED <<cfgv, resets, pc, stored, hist>>

ResetStatus(l) ==
  /\ Caller = "direct" /\ resets < MaxResets /\ l \in Levels /\ status[l] = "FAILED"
  /\ status' = [status EXCEPT ![l] = "DONE"] /\ resets' = resets + 1
  /\ UNCHANGED <<cfgv, nexec, cache, runs, okRuns, i, last, pc, stored, hist>>

(* "doe": the sequential loop of BaseDOELibrary._run over the samples 1..N (distinct points) *)
Sample(o) ==
  /\ Caller = "doe" /\ pc = "loop" /\ i < N
  /\ LET p == i + 1
         r == Exec(1, p, o, Pre(Cur)) IN
       /\ Install(r.st) /\ last' = Seen(r, o)
       /\ stored' = (IF r.res.kind = "ret" THEN Append(stored, p) ELSE stored)
       /\ pc' = (IF r.res.kind = "exc" /\ r.res.cls # "ValueError" THEN "raised" ELSE "loop")
  /\ i' = i + 1 /\ hist' = Append(hist, o)
  /\ UNCHANGED <<cfgv, resets>>

(* "retry": reference client - at most N attempts at point 1; fatal classes = {RuntimeError} *)
Attempt(o) ==
  /\ Caller = "retry" /\ pc = "loop" /\ i < N
  /\ LET r == Exec(1, 1, o, Pre(Cur)) IN
       /\ Install(r.st) /\ last' = Seen(r, o)
       /\ pc' = (IF r.res.kind = "ret" THEN "returned"
                 ELSE IF r.res.cls = "RuntimeError" THEN "raised"     \* Return / fatal: at once
                 ELSE IF i + 1 = N THEN "gaveup"                      \* GiveUp: the LAST exception
                 ELSE "loop")
  /\ i' = i + 1 /\ hist' = Append(hist, o)
  /\ UNCHANGED <<cfgv, resets, stored>>

Finish == /\ Caller = "doe" /\ pc = "loop" /\ i = N /\ pc' = "returned"
          /\ UNCHANGED <<cfgv, status, nexec, cache, runs, okRuns, i, last, resets, stored, hist>>

Next == \/ \E p \in Points, o \in Outcomes : Call(p, o)
        \/ \E l \in 1..3 : ResetStatus(l)      \* (a constant range: TLC keeps the action name)
        \/ \E o \in Outcomes : Sample(o)
        \/ \E o \in Outcomes : Attempt(o)
        \/ Finish

Spec == Init /\ [][Next]_vars /\ WF_vars(Next)

------------------------------------------------------------------------------------------
TypeOK == /\ depth \in Depths /\ caller \in Callers /\ reset \in Resets
          /\ status \in [Levels -> {"DONE", "FAILED"}] /\ nexec \in [Levels -> 0..N]
          /\ \A l \in Levels : cache[l].pt \in 0..9 /\ cache[l].run \in 0..N
          /\ runs \in 0..N /\ okRuns \subseteq 1..N /\ i \in 0..N /\ resets \in 0..MaxResets
          /\ pc \in {"loop", "returned", "raised", "gaveup"}

(* the body is executed at most once per call / sample / attempt: at most n_trials times *)
AtMostOncePerCall == runs <= i

(* n_executions counts the successful executions and only them: failed attempts = runs - n_executions *)
CountsSuccesses == /\ nexec[Depth] = Cardinality(okRuns)
                   /\ \A l \in Levels : nexec[l] <= i

(* a failed attempt never reaches a cache: every cached evaluation comes from a successful run *)
CacheOnlySuccess == \A l \in Levels : cache[l] # NoEntry => cache[l].run \in okRuns

(* what a call returns was produced by a successful run of the body, at the requested point *)
ReturnsSuccess == last.kind = "ret" => (last.run \in okRuns /\ last.pt >= 1)

(* an exception of the body is re-raised as it is (same class) through every wrapper, and it comes
   from the run of this very call *)
SameClass == /\ last.origin = "body" =>
                  (/\ last.env \in {"nonfatal", "fatal"}
                   /\ last.cls = (IF last.env = "fatal" THEN "RuntimeError" ELSE "ValueError")
                   /\ runs \notin okRuns)
             /\ last.env = "ok" => (last.kind = "ret" /\ last.run = runs)

(* the refusal to run comes from a level that had failed before and was not reset; it is not a run *)
RefusedBecauseFailed ==
  [][(i' > i /\ last'.origin = "status") =>
        (/\ status[last'.lvl] = "FAILED" /\ status'[last'.lvl] = "FAILED"
         /\ last'.env = "none" /\ runs' = runs)]_vars

(* without user resets the levels below the top fail and stay failed TOGETHER: one failure of the
   body poisons the whole stack (Reset = "none": the top as well) *)
Poisoned == (resets = 0 /\ Reset # "all") =>
               \A l, m \in Levels : ((l > 1 /\ m > 1) \/ Reset = "none") => status[l] = status[m]

(* FAILED is absorbing: only a reset leaves it *)
Absorbing == [][\A l \in Levels :
                  (status[l] = "FAILED" /\ resets' = resets /\ (Reset = "none" \/ (Reset = "top" /\ l > 1)))
                     => status'[l] = "FAILED"]_vars
Monotone == [][runs' >= runs /\ i' >= i /\ \A l \in Levels : nexec'[l] >= nexec[l]]_vars

\* ---------------------------------------------------------------- the tolerant loops
(* where failure isolation holds: every level is reset, or there is only the level the adapter resets *)
Isolated == reset = "all" \/ (reset = "top" /\ depth = 1)
OkSamples == {k \in 1..Len(hist) : hist[k] = "ok"}
SeqToSet(s) == {s[k] : k \in 1..Len(s)}

(* doe: what is stored comes from a sample that succeeded, in order *)
StoredSound == /\ SeqToSet(stored) \subseteq OkSamples
               /\ \A a, b \in 1..Len(stored) : a < b => stored[a] < stored[b]

(* doe: a fatal exception leaves the loop at once (it is the last outcome, nothing ran after it);
   a non-fatal one never leaves it *)
FatalStops == Caller = "doe" =>
                /\ pc = "raised" => (hist[Len(hist)] = "fatal" /\ last.cls = "RuntimeError" /\ i = Len(hist))
                /\ pc = "returned" => i = N
                /\ pc \in {"loop", "returned", "raised"}

(* doe, SPECIFICATION (failure isolation): a non-fatal failure costs its own sample only *)
StoredComplete == (Caller = "doe" /\ pc = "returned") => SeqToSet(stored) = OkSamples
(* the same, said on the body: every sample reaches the body *)
EverySampleRuns == Caller = "doe" => runs = i

(* retry: success stops the loop and is returned (the outputs of that very run); a fatal class is
   raised at once; after N failures the LAST exception is raised; otherwise the loop goes on *)
RetryOutcome == Caller = "retry" =>
   /\ i = Len(hist)
   /\ pc = "returned" => (last.kind = "ret" /\ last.run = runs /\ last.env = "ok" /\ hist[Len(hist)] = "ok")
   /\ pc = "raised"   => (last.cls = "RuntimeError" /\ last.env = "fatal" /\ hist[Len(hist)] = "fatal")
   /\ pc = "gaveup"   => (i = N /\ last.kind = "exc" /\ last.cls = "ValueError")
   /\ pc = "loop"     => (i < N /\ last.kind # "ret" /\ last.cls # "RuntimeError")
   /\ Isolated => (/\ \A k \in 1..(Len(hist) - 1) : hist[k] = "nonfatal"
                   /\ pc \in {"loop", "gaveup"} => \A k \in 1..Len(hist) : hist[k] = "nonfatal")
(* retry, SPECIFICATION: every attempt is a genuine execution of the body *)
RetryEffective == Caller = "retry" => runs = i

IsolationWhereReset == Isolated => (StoredComplete /\ EverySampleRuns /\ RetryEffective)

Terminates == <>(pc # "loop" \/ (Caller = "direct" /\ i = N))

------------------------------------------------------------------------------------------
(* terminal states for the binding (doe / retry): printed with the history that led to them *)
PrintTerminal == pc # "loop" =>
   PrintT(<<"CASE", Caller, Reset, Depth, hist, pc, stored, runs,
            [l \in Levels |-> status[l]], [l \in Levels |-> nexec[l]], last.cls, last.origin, last.run>>)
================================================================================
