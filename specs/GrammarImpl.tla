----------------------------- MODULE GrammarImpl -----------------------------
(* C15 - implementation-shaped model of JSONGrammar / BaseGrammar               *)
(* (json_grammar.py, base_grammar.py, required_names.py, json_schema.py):       *)
(* the derived state the code keeps next to the definition of a grammar and the *)
(* rules that keep it coherent.                                                 *)
(*                                                                              *)
(*   el[s]    the elements of grammar object s (properties of its builder)      *)
(*   heap[i]  the python sets that hold required names                          *)
(*   rn[s]    the RequiredNames object of s: which set it uses (ref) and which  *)
(*            grammar it checks the names against (owner)                       *)
(*   df[s]    the Defaults object of s: the names that have a default and the    *)
(*            grammar it checks the names against (owner)                       *)
(*   val[s]   the lazily compiled validator: the elements it was compiled from  *)
(*            and the required names compiled into it, if any (bake, req)       *)
(*   dirty[s] PydanticGrammar: the "model needs rebuild" flag; val[s] is then   *)
(*            the model as last built (it is kept, not dropped, by an edit)     *)
(*   sch[s]   the lazily built, cached schema dictionary (properties, required) *)
(*   breq[s]  the schema builder's own required set (None until a schema with   *)
(*            "required" or an object was added to it)                          *)
(*                                                                              *)
(* Rules = "coherent": the rules under which the invariants hold (the oracle of *)
(* the conformance checks of c15.py is Grammar.tla; this module shows that      *)
(* simple invalidation rules suffice).                                          *)
(* Rules = "code": the rules of the code as read (copy() shallow-copies the     *)
(* RequiredNames; to_json/schema go through the builder's required set;         *)
(* _create_validator pops "required" from the cached dictionary; edits of the   *)
(* required names do not reset the cached schema).  TLC refutes NoSharing,      *)
(* ExportCorrect, SchemaCoherent, SchemaRequired there: findings D14, D1501-D1504,*)
(* D1506 at specification level.  RenameResets = FALSE is the catalogued mutant   *)
(* (rename without re-initialising the dependencies): NoStaleValidator fails.   *)
(* CopyDefaults = "shallow" installs copy(defaults) in a copy (Defaults.__copy__ *)
(* keeps the source grammar) instead of re-binding: DefaultsBound fails at Copy  *)
(* and DefaultsWellFormed after  Copy; Delete in the copy; SetDefault there.     *)
(* BakeRequired = TRUE compiles the required names of the moment into the        *)
(* validator (no edit of the required names resets it): ValidateMeaning fails    *)
(* after  Validate; EditRequired(remove); and is only seen by a validation of    *)
(* data lacking the name.  Class = "pydantic" replaces the drop-and-recompile    *)
(* protocol by the rebuild flag; CopyFlag = "inherit" gives a copy (which owns a *)
(* new, empty model filled with the fields of the source) the flag of its source *)
(* instead of setting it: ValidationCurrent fails after  Validate; Copy  and     *)
(* after  Pickle; Copy.                                                          *)
EXTENDS Naturals, FiniteSets, TLC

CONSTANTS Names, Types, Rules, RenameResets, CopyDefaults, MaxOps,
          Class,          \* "json" | "pydantic"
          BakeRequired,   \* the compiled validator includes the required names of the moment
          CopyFlag        \* "dirty" | "inherit": the rebuild flag of a copied pydantic grammar

VARIABLES el, heap, rn, df, val, dirty, sch, breq, live, nops
vars == <<el, heap, rn, df, val, dirty, sch, breq, live, nops>>

Slots == {1, 2}
Absent == 0                                   \* el[s][n] = 0: n is not an element
Elems == [Names -> Types \cup {Absent}]
Dom(e) == {n \in Names : e[n] # Absent}
NoElems == [n \in Names |-> Absent]
Code == Rules = "code"
Json == Class = "json"
Pyd == Class = "pydantic"

NoVal == [some |-> FALSE, e |-> NoElems, bake |-> FALSE, req |-> {}]
EmptyModel == [NoVal EXCEPT !.some = TRUE]       \* pydantic: a model without fields (validates anything)
NoSch == [some |-> FALSE, e |-> NoElems, req |-> {}, has |-> FALSE]
NoneB == [none |-> TRUE, set |-> {}]           \* builder required: None
SetB(S) == [none |-> FALSE, set |-> S]

Req(s) == heap[rn[s].ref]

Init == /\ el = [s \in Slots |-> NoElems]
        /\ heap = [i \in Slots |-> {}]
        /\ rn = [s \in Slots |-> [ref |-> s, owner |-> s]]
        /\ df = [s \in Slots |-> [names |-> {}, owner |-> s]]
        /\ val = [s \in Slots |-> IF Pyd THEN EmptyModel ELSE NoVal]
        /\ dirty = [s \in Slots |-> FALSE]
        /\ sch = [s \in Slots |-> NoSch]
        /\ breq = [s \in Slots |-> NoneB]
        /\ live = [s \in Slots |-> s = 1]
        /\ nops = 0

Tick == nops < MaxOps /\ nops' = nops + 1
(* an edit of the elements: JSON __init_dependencies drops validator and schema; pydantic raises the flag *)
Reset(s) == IF Pyd THEN dirty' = [dirty EXCEPT ![s] = TRUE] /\ UNCHANGED <<val, sch>>
            ELSE val' = [val EXCEPT ![s] = NoVal] /\ sch' = [sch EXCEPT ![s] = NoSch] /\ UNCHANGED dirty

(* RequiredNames.add checks the name against the bound grammar: the call raises when it is not there  *)
CanRequire(s, e, n) == LET o == rn[s].owner IN IF o = s THEN n \in Dom(e) ELSE n \in Dom(el[o])

CanDefault(s, e, n) == LET o == df[s].owner IN IF o = s THEN n \in Dom(e) ELSE n \in Dom(el[o])

(* update_from_types({n: t}) *)
AddTyped(s, n, t) ==
  /\ live[s] /\ Tick
  /\ LET e == [el[s] EXCEPT ![n] = t] IN
       /\ CanRequire(s, e, n)
       /\ el' = [el EXCEPT ![s] = e]
  /\ heap' = [heap EXCEPT ![rn[s].ref] = @ \cup {n}]
  /\ Reset(s) /\ UNCHANGED <<rn, df, breq, live>>

(* update_from_names([n]): add_object on the builder, then its required set is cleared *)
AddNamed(s, n) ==
  /\ live[s] /\ Tick
  /\ LET e == [el[s] EXCEPT ![n] = CHOOSE t \in Types : TRUE] IN
       /\ CanRequire(s, e, n)
       /\ el' = [el EXCEPT ![s] = e]
  /\ heap' = [heap EXCEPT ![rn[s].ref] = @ \cup {n}]
  /\ breq' = [breq EXCEPT ![s] = IF Json THEN SetB({}) ELSE @]
  /\ Reset(s) /\ UNCHANGED <<rn, df, live>>

(* update_from_schema({properties: {n: t}, required: [n] if r}) *)
AddSchema(s, n, t, r) ==
  /\ Json /\ live[s] /\ Tick
  /\ LET e == [el[s] EXCEPT ![n] = t]
         b == IF ~r THEN breq[s]                                  \* genson: intersects "required"
              ELSE IF breq[s].none THEN SetB({n}) ELSE SetB(breq[s].set \cap {n})
         add == IF Code THEN b.set ELSE (IF r THEN {n} ELSE {})
     IN /\ \A x \in add : CanRequire(s, e, x)
        /\ el' = [el EXCEPT ![s] = e]
        /\ heap' = [heap EXCEPT ![rn[s].ref] = @ \cup add]
        /\ breq' = [breq EXCEPT ![s] = IF b.none THEN b ELSE SetB({})]
  /\ Reset(s) /\ UNCHANGED <<rn, df, live>>

Rename(s, n, m) ==
  /\ live[s] /\ Tick /\ n \in Dom(el[s]) /\ m \notin Dom(el[s])
  /\ LET e == [el[s] EXCEPT ![n] = Absent, ![m] = el[s][n]] IN
       /\ (n \in Req(s) => CanRequire(s, e, m))
       /\ (n \in df[s].names => CanDefault(s, e, m))
       /\ el' = [el EXCEPT ![s] = e]
  /\ heap' = [heap EXCEPT ![rn[s].ref] = IF n \in @ THEN (@ \ {n}) \cup {m} ELSE @]
  /\ df' = [df EXCEPT ![s].names = IF n \in @ THEN (@ \ {n}) \cup {m} ELSE @]
  /\ (IF RenameResets THEN Reset(s) ELSE UNCHANGED <<val, dirty, sch>>)
  /\ UNCHANGED <<rn, breq, live>>

Delete(s, n) ==
  /\ live[s] /\ Tick /\ n \in Dom(el[s])
  /\ el' = [el EXCEPT ![s][n] = Absent]
  /\ heap' = [heap EXCEPT ![rn[s].ref] = @ \ {n}]
  /\ df' = [df EXCEPT ![s].names = @ \ {n}]
  /\ Reset(s) /\ UNCHANGED <<rn, breq, live>>

(* edits through the live required-names set (add / remove / discard / clear; |= -= &= are sequences of  *)
(* these): no derived state is touched -- the code does not touch the cached schema, the coherent rule  *)
(* rebuilds the "required" entry on every access (see SchemaView) -- and the validator is not dropped   *)
ReqOps == {"add", "remove", "discard", "clear"}
EditRequired(s, op, n) ==
  /\ live[s] /\ Tick
  /\ (op = "add" => CanRequire(s, el[s], n))
  /\ (op = "remove" => n \in Req(s))
  /\ (op = "clear" => n = CHOOSE x \in Names : TRUE)
  /\ LET R == Req(s)
         new == IF op = "add" THEN R \cup {n} ELSE IF op = "clear" THEN {} ELSE R \ {n}
     IN heap' = [heap EXCEPT ![rn[s].ref] = new]
  /\ UNCHANGED <<el, rn, df, val, dirty, sch, breq, live>>

(* defaults[n] = v: Defaults.__setitem__ checks the name against the bound grammar *)
SetDefault(s, n) ==
  /\ live[s] /\ Tick /\ CanDefault(s, el[s], n)
  /\ df' = [df EXCEPT ![s].names = @ \cup {n}]
  /\ UNCHANGED <<el, heap, rn, val, dirty, sch, breq, live>>

(* what the builder exports as "required" when the code synchronises it with the required names *)
Synced(s) == IF breq[s].none THEN [has |-> FALSE, req |-> {}]
             ELSE [has |-> (breq[s].set \cup Req(s)) # {}, req |-> breq[s].set \cup Req(s)]
AfterSync(s) == IF breq[s].none THEN breq[s] ELSE SetB({})
Built(s) == IF Code THEN [some |-> TRUE, e |-> el[s], req |-> Synced(s).req, has |-> Synced(s).has]
            ELSE [some |-> TRUE, e |-> el[s], req |-> {}, has |-> FALSE]    \* required is not cached
Filled(s) == IF sch[s].some THEN sch[s] ELSE Built(s)

(* grammar.schema *)
Schema(s) ==
  /\ Json /\ live[s] /\ UNCHANGED <<el, heap, rn, df, val, dirty, live, nops>>
  /\ sch' = [sch EXCEPT ![s] = Filled(s)]
  /\ breq' = [breq EXCEPT ![s] = IF Code /\ ~sch[s].some THEN AfterSync(s) ELSE @]

(* validate(): compiles the validator when there is none; the code pops "required" from the cached dict  *)
(* (BakeRequired: compiles the schema as it is, "required" included); pydantic rebuilds the model when   *)
(* the flag is raised                                                                                    *)
Compiled(s) == [some |-> TRUE, e |-> Filled(s).e, bake |-> BakeRequired, req |-> IF BakeRequired THEN Req(s) ELSE {}]
Validate(s) ==
  /\ live[s] /\ UNCHANGED <<el, heap, rn, df, live, nops>>
  /\ IF Pyd
     THEN /\ val' = [val EXCEPT ![s] = IF dirty[s] THEN [EmptyModel EXCEPT !.e = el[s]] ELSE @]
          /\ dirty' = [dirty EXCEPT ![s] = FALSE]
          /\ UNCHANGED <<sch, breq>>
     ELSE /\ UNCHANGED dirty
          /\ IF val[s].some THEN UNCHANGED <<val, sch, breq>>
             ELSE /\ val' = [val EXCEPT ![s] = Compiled(s)]
                  /\ sch' = [sch EXCEPT ![s] = IF Code THEN [Filled(s) EXCEPT !.has = FALSE] ELSE Filled(s)]
                  /\ breq' = [breq EXCEPT ![s] = IF Code /\ ~sch[s].some THEN AfterSync(s) ELSE @]

(* to_json(): nothing is cached; the code leaves the builder's required set cleared *)
ToJson(s) ==
  /\ Json /\ live[s] /\ UNCHANGED <<el, heap, rn, df, val, dirty, sch, live, nops>>
  /\ breq' = [breq EXCEPT ![s] = IF Code THEN AfterSync(s) ELSE @]

(* pickle round trip: the schema is built and shipped, the validator is not; the new builder receives *)
(* the shipped schema.  Pydantic: __getstate__ rebuilds the model, the fields are shipped, __setstate__ *)
(* creates a new model from them and rebuilds it                                                      *)
Pickle(s) ==
  /\ live[s] /\ Tick /\ UNCHANGED <<el, heap, live>>
  /\ rn' = [rn EXCEPT ![s].owner = IF rn[s].owner = s THEN s ELSE @]
  /\ df' = [df EXCEPT ![s].owner = s]                 \* shipped as a plain dict, set again one by one
  /\ IF Pyd
     THEN /\ val' = [val EXCEPT ![s] = [EmptyModel EXCEPT !.e = el[s]]]
          /\ dirty' = [dirty EXCEPT ![s] = FALSE]
          /\ UNCHANGED <<sch, breq>>
     ELSE /\ val' = [val EXCEPT ![s] = NoVal]
          /\ sch' = [sch EXCEPT ![s] = Filled(s)]
          /\ breq' = [breq EXCEPT ![s] = IF Filled(s).has THEN SetB(Filled(s).req) ELSE NoneB]
          /\ UNCHANGED dirty

(* copy(): slot 2 becomes a copy of slot 1 *)
Copy ==
  /\ live[1] /\ ~live[2] /\ Tick
  /\ live' = [live EXCEPT ![2] = TRUE]
  /\ el' = [el EXCEPT ![2] = el[1]]
  /\ val' = [val EXCEPT ![2] = IF Pyd THEN EmptyModel ELSE val[1]]   \* pydantic: a new model, then its fields
  /\ dirty' = [dirty EXCEPT ![2] = IF Pyd THEN (IF CopyFlag = "inherit" THEN dirty[1] ELSE TRUE) ELSE @]
  /\ sch' = [sch EXCEPT ![2] = sch[1]]
  /\ breq' = [breq EXCEPT ![2] = IF breq[1].set = {} THEN NoneB ELSE breq[1]]
  /\ df' = [df EXCEPT ![2] = [names |-> df[1].names,
                              owner |-> IF CopyDefaults = "shallow" THEN df[1].owner ELSE 2]]
  /\ IF Code THEN /\ rn' = [rn EXCEPT ![2] = rn[1]]                 \* copy(self._required_names)
                  /\ UNCHANGED heap
     ELSE /\ rn' = [rn EXCEPT ![2] = [ref |-> 2, owner |-> 2]]      \* RequiredNames(copy, names)
          /\ heap' = [heap EXCEPT ![2] = Req(1)]

Next == \/ \E s \in Slots, n \in Names :
             \/ \E t \in Types : AddTyped(s, n, t) \/ \E r \in BOOLEAN : AddSchema(s, n, t, r)
             \/ AddNamed(s, n) \/ Delete(s, n) \/ SetDefault(s, n)
             \/ \E op \in ReqOps : EditRequired(s, op, n)
             \/ \E m \in Names : Rename(s, n, m)
        \/ \E s \in Slots : Schema(s) \/ Validate(s) \/ ToJson(s) \/ Pickle(s)
        \/ Copy
Spec == Init /\ [][Next]_vars

--------------------------------------------------------------------------------
(* observable views *)
SchemaView(s) == LET c == Filled(s) IN          \* what grammar.schema returns
  IF Code THEN [props |-> Dom(c.e), has |-> c.has, req |-> IF c.has THEN c.req ELSE {}]
  ELSE [props |-> Dom(c.e), has |-> Req(s) # {}, req |-> Req(s)]
JsonView(s) ==                                  \* what to_json() returns
  IF Code THEN [props |-> Dom(el[s]), has |-> Synced(s).has, req |-> IF Synced(s).has THEN Synced(s).req ELSE {}]
  ELSE [props |-> Dom(el[s]), has |-> Req(s) # {}, req |-> Req(s)]
Exported(s) == [props |-> Dom(el[s]), has |-> Req(s) # {}, req |-> Req(s)]

TypeOK == /\ el \in [Slots -> Elems] /\ heap \in [Slots -> SUBSET Names] /\ nops \in 0..MaxOps
          /\ \A s \in Slots : rn[s].ref \in Slots /\ rn[s].owner \in Slots
          /\ dirty \in [Slots -> BOOLEAN] /\ (Json => \A s \in Slots : ~dirty[s])

(* validation never uses a stale definition *)
NoStaleValidator == \A s \in Slots : (live[s] /\ val[s].some /\ ~dirty[s]) => val[s].e = el[s]
(* the elements a validation would use now (JSON: the compiled validator if any; pydantic: the model,  *)
(* rebuilt first when the flag is raised) are the current elements of that grammar object              *)
Used(s) == IF Pyd THEN (IF dirty[s] THEN el[s] ELSE val[s].e)
           ELSE (IF val[s].some THEN val[s].e ELSE el[s])
ValidationCurrent == \A s \in Slots : live[s] => Used(s) = el[s]
(* data (here: the set of names it holds, well typed) is accepted exactly when it holds every required *)
(* name: the base class checks the current required names, then the compiled validator has its say     *)
(* (the pydantic model of the code as read also requires every field: finding D1508)                   *)
ImplAccepts(s, d) ==
  /\ Req(s) \subseteq d
  /\ (val[s].some /\ val[s].bake) => val[s].req \subseteq d
  /\ (Pyd /\ Code) => Dom(Used(s)) \subseteq d
ValidateMeaning == \A s \in Slots : live[s] => \A d \in SUBSET Names : ImplAccepts(s, d) <=> Req(s) \subseteq d
(* required names only refer to existing elements *)
WellFormed == \A s \in Slots : live[s] => Req(s) \subseteq Dom(el[s])
(* defaults only refer to existing elements, and each grammar checks them against itself *)
DefaultsWellFormed == \A s \in Slots : live[s] => df[s].names \subseteq Dom(el[s])
DefaultsBound == \A s \in Slots : live[s] => df[s].owner = s
(* two grammar objects never share their required names, and each checks names against itself *)
NoSharing == \A s \in Slots : live[s] => (rn[s].owner = s /\ \A t \in Slots \ {s} : live[t] => rn[t].ref # rn[s].ref)
(* the cached schema is the schema of the current definition *)
SchemaCoherent == \A s \in Slots : (live[s] /\ sch[s].some) => sch[s].e = el[s]
SchemaRequired == \A s \in Slots : live[s] => SchemaView(s) = Exported(s)
(* to_json() exports the definition *)
ExportCorrect == \A s \in Slots : live[s] => JsonView(s) = Exported(s)
(* the required names of an added schema become required *)
SchemaAdds == [][\A s \in Slots, n \in Names, t \in Types :
                   AddSchema(s, n, t, TRUE) => n \in heap'[rn'[s].ref]]_vars
================================================================================
