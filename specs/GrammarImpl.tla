----------------------------- MODULE GrammarImpl -----------------------------
(* C15 - implementation-shaped model of JSONGrammar / BaseGrammar               *)
(* (json_grammar.py, base_grammar.py, required_names.py, json_schema.py):       *)
(* the derived state the code keeps next to the definition of a grammar and the *)
(* rules that keep it coherent.                                                 *)
(*                                                                              *)
(*   el[s]    the elements of grammar object s (properties of its builder)      *)
(*   heap[i]  the python sets that hold required names                          *)
(*   rn[s]    the RequiredNames object of s: which set it uses (ref) and which  *)
(*            grammar it checks the names against (owner)                       *)
(*   df[s]    the Defaults object of s: the names that have a default and the    *)
(*            grammar it checks the names against (owner)                       *)
(*   val[s]   the lazily compiled validator: the elements it was compiled from  *)
(*   sch[s]   the lazily built, cached schema dictionary (properties, required) *)
(*   breq[s]  the schema builder's own required set (None until a schema with   *)
(*            "required" or an object was added to it)                          *)
(*                                                                              *)
(* Rules = "coherent": the rules under which the invariants hold (the oracle of *)
(* the conformance checks of c15.py is Grammar.tla; this module shows that      *)
(* simple invalidation rules suffice).                                          *)
(* Rules = "code": the rules of the code as read (copy() shallow-copies the     *)
(* RequiredNames; to_json/schema go through the builder's required set;         *)
(* _create_validator pops "required" from the cached dictionary; edits of the   *)
(* required names do not reset the cached schema).  TLC refutes NoSharing,      *)
(* ExportCorrect, SchemaCoherent, SchemaRequired there: findings D14, D1501-D1504,*)
(* D1506 at specification level.  RenameResets = FALSE is the catalogued mutant   *)
(* (rename without re-initialising the dependencies): NoStaleValidator fails.   *)
(* CopyDefaults = "shallow" installs copy(defaults) in a copy (Defaults.__copy__ *)
(* keeps the source grammar) instead of re-binding: DefaultsBound fails at Copy  *)
(* and DefaultsWellFormed after  Copy; Delete in the copy; SetDefault there.     *)
EXTENDS Naturals, FiniteSets, TLC

CONSTANTS Names, Types, Rules, RenameResets, CopyDefaults, MaxOps

VARIABLES el, heap, rn, df, val, sch, breq, live, nops
vars == <<el, heap, rn, df, val, sch, breq, live, nops>>

Slots == {1, 2}
Absent == 0                                   \* el[s][n] = 0: n is not an element
Elems == [Names -> Types \cup {Absent}]
Dom(e) == {n \in Names : e[n] # Absent}
NoElems == [n \in Names |-> Absent]
Code == Rules = "code"

NoVal == [some |-> FALSE, e |-> NoElems]
NoSch == [some |-> FALSE, e |-> NoElems, req |-> {}, has |-> FALSE]
NoneB == [none |-> TRUE, set |-> {}]           \* builder required: None
SetB(S) == [none |-> FALSE, set |-> S]

Req(s) == heap[rn[s].ref]

Init == /\ el = [s \in Slots |-> NoElems]
        /\ heap = [i \in Slots |-> {}]
        /\ rn = [s \in Slots |-> [ref |-> s, owner |-> s]]
        /\ df = [s \in Slots |-> [names |-> {}, owner |-> s]]
        /\ val = [s \in Slots |-> NoVal]
        /\ sch = [s \in Slots |-> NoSch]
        /\ breq = [s \in Slots |-> NoneB]
        /\ live = [s \in Slots |-> s = 1]
        /\ nops = 0

Tick == nops < MaxOps /\ nops' = nops + 1
Reset(s) == val' = [val EXCEPT ![s] = NoVal] /\ sch' = [sch EXCEPT ![s] = NoSch]     \* __init_dependencies

(* RequiredNames.add checks the name against the bound grammar: the call raises when it is not there  *)
CanRequire(s, e, n) == LET o == rn[s].owner IN IF o = s THEN n \in Dom(e) ELSE n \in Dom(el[o])

CanDefault(s, e, n) == LET o == df[s].owner IN IF o = s THEN n \in Dom(e) ELSE n \in Dom(el[o])

(* update_from_types({n: t}) *)
AddTyped(s, n, t) ==
  /\ live[s] /\ Tick
  /\ LET e == [el[s] EXCEPT ![n] = t] IN
       /\ CanRequire(s, e, n)
       /\ el' = [el EXCEPT ![s] = e]
  /\ heap' = [heap EXCEPT ![rn[s].ref] = @ \cup {n}]
  /\ Reset(s) /\ UNCHANGED <<rn, df, breq, live>>

(* update_from_names([n]): add_object on the builder, then its required set is cleared *)
AddNamed(s, n) ==
  /\ live[s] /\ Tick
  /\ LET e == [el[s] EXCEPT ![n] = CHOOSE t \in Types : TRUE] IN
       /\ CanRequire(s, e, n)
       /\ el' = [el EXCEPT ![s] = e]
  /\ heap' = [heap EXCEPT ![rn[s].ref] = @ \cup {n}]
  /\ breq' = [breq EXCEPT ![s] = SetB({})]
  /\ Reset(s) /\ UNCHANGED <<rn, df, live>>

(* update_from_schema({properties: {n: t}, required: [n] if r}) *)
AddSchema(s, n, t, r) ==
  /\ live[s] /\ Tick
  /\ LET e == [el[s] EXCEPT ![n] = t]
         b == IF ~r THEN breq[s]                                  \* genson: intersects "required"
              ELSE IF breq[s].none THEN SetB({n}) ELSE SetB(breq[s].set \cap {n})
         add == IF Code THEN b.set ELSE (IF r THEN {n} ELSE {})
     IN /\ \A x \in add : CanRequire(s, e, x)
        /\ el' = [el EXCEPT ![s] = e]
        /\ heap' = [heap EXCEPT ![rn[s].ref] = @ \cup add]
        /\ breq' = [breq EXCEPT ![s] = IF b.none THEN b ELSE SetB({})]
  /\ Reset(s) /\ UNCHANGED <<rn, df, live>>

Rename(s, n, m) ==
  /\ live[s] /\ Tick /\ n \in Dom(el[s]) /\ m \notin Dom(el[s])
  /\ LET e == [el[s] EXCEPT ![n] = Absent, ![m] = el[s][n]] IN
       /\ (n \in Req(s) => CanRequire(s, e, m))
       /\ (n \in df[s].names => CanDefault(s, e, m))
       /\ el' = [el EXCEPT ![s] = e]
  /\ heap' = [heap EXCEPT ![rn[s].ref] = IF n \in @ THEN (@ \ {n}) \cup {m} ELSE @]
  /\ df' = [df EXCEPT ![s].names = IF n \in @ THEN (@ \ {n}) \cup {m} ELSE @]
  /\ (IF RenameResets THEN Reset(s) ELSE UNCHANGED <<val, sch>>)
  /\ UNCHANGED <<rn, breq, live>>

Delete(s, n) ==
  /\ live[s] /\ Tick /\ n \in Dom(el[s])
  /\ el' = [el EXCEPT ![s][n] = Absent]
  /\ heap' = [heap EXCEPT ![rn[s].ref] = @ \ {n}]
  /\ df' = [df EXCEPT ![s].names = @ \ {n}]
  /\ Reset(s) /\ UNCHANGED <<rn, breq, live>>

(* required_names.remove(n): the code does not touch the cached schema; the coherent rule rebuilds the *)
(* "required" entry on every access (see SchemaView)                                                    *)
Unrequire(s, n) ==
  /\ live[s] /\ Tick /\ n \in Req(s)
  /\ heap' = [heap EXCEPT ![rn[s].ref] = @ \ {n}]
  /\ UNCHANGED <<el, rn, df, val, sch, breq, live>>

(* defaults[n] = v: Defaults.__setitem__ checks the name against the bound grammar *)
SetDefault(s, n) ==
  /\ live[s] /\ Tick /\ CanDefault(s, el[s], n)
  /\ df' = [df EXCEPT ![s].names = @ \cup {n}]
  /\ UNCHANGED <<el, heap, rn, val, sch, breq, live>>

(* what the builder exports as "required" when the code synchronises it with the required names *)
Synced(s) == IF breq[s].none THEN [has |-> FALSE, req |-> {}]
             ELSE [has |-> (breq[s].set \cup Req(s)) # {}, req |-> breq[s].set \cup Req(s)]
AfterSync(s) == IF breq[s].none THEN breq[s] ELSE SetB({})
Built(s) == IF Code THEN [some |-> TRUE, e |-> el[s], req |-> Synced(s).req, has |-> Synced(s).has]
            ELSE [some |-> TRUE, e |-> el[s], req |-> {}, has |-> FALSE]    \* required is not cached
Filled(s) == IF sch[s].some THEN sch[s] ELSE Built(s)

(* grammar.schema *)
Schema(s) ==
  /\ live[s] /\ UNCHANGED <<el, heap, rn, df, val, live, nops>>
  /\ sch' = [sch EXCEPT ![s] = Filled(s)]
  /\ breq' = [breq EXCEPT ![s] = IF Code /\ ~sch[s].some THEN AfterSync(s) ELSE @]

(* validate(): compiles the validator when there is none; the code pops "required" from the cached dict *)
Validate(s) ==
  /\ live[s] /\ UNCHANGED <<el, heap, rn, df, live, nops>>
  /\ IF val[s].some THEN UNCHANGED <<val, sch, breq>>
     ELSE /\ val' = [val EXCEPT ![s] = [some |-> TRUE, e |-> Filled(s).e]]
          /\ sch' = [sch EXCEPT ![s] = IF Code THEN [Filled(s) EXCEPT !.has = FALSE] ELSE Filled(s)]
          /\ breq' = [breq EXCEPT ![s] = IF Code /\ ~sch[s].some THEN AfterSync(s) ELSE @]

(* to_json(): nothing is cached; the code leaves the builder's required set cleared *)
ToJson(s) ==
  /\ live[s] /\ UNCHANGED <<el, heap, rn, df, val, sch, live, nops>>
  /\ breq' = [breq EXCEPT ![s] = IF Code THEN AfterSync(s) ELSE @]

(* pickle round trip: the schema is built and shipped, the validator is not; the new builder receives *)
(* the shipped schema                                                                                  *)
Pickle(s) ==
  /\ live[s] /\ Tick /\ UNCHANGED <<el, heap, live>>
  /\ rn' = [rn EXCEPT ![s].owner = IF rn[s].owner = s THEN s ELSE @]
  /\ df' = [df EXCEPT ![s].owner = s]                 \* shipped as a plain dict, set again one by one
  /\ val' = [val EXCEPT ![s] = NoVal]
  /\ sch' = [sch EXCEPT ![s] = Filled(s)]
  /\ breq' = [breq EXCEPT ![s] = IF Filled(s).has THEN SetB(Filled(s).req) ELSE NoneB]

(* copy(): slot 2 becomes a copy of slot 1 *)
Copy ==
  /\ live[1] /\ ~live[2] /\ Tick
  /\ live' = [live EXCEPT ![2] = TRUE]
  /\ el' = [el EXCEPT ![2] = el[1]]
  /\ val' = [val EXCEPT ![2] = val[1]]
  /\ sch' = [sch EXCEPT ![2] = sch[1]]
  /\ breq' = [breq EXCEPT ![2] = IF breq[1].set = {} THEN NoneB ELSE breq[1]]
  /\ df' = [df EXCEPT ![2] = [names |-> df[1].names,
                              owner |-> IF CopyDefaults = "shallow" THEN df[1].owner ELSE 2]]
  /\ IF Code THEN /\ rn' = [rn EXCEPT ![2] = rn[1]]                 \* copy(self._required_names)
                  /\ UNCHANGED heap
     ELSE /\ rn' = [rn EXCEPT ![2] = [ref |-> 2, owner |-> 2]]      \* RequiredNames(copy, names)
          /\ heap' = [heap EXCEPT ![2] = Req(1)]

Next == \/ \E s \in Slots, n \in Names :
             \/ \E t \in Types : AddTyped(s, n, t) \/ \E r \in BOOLEAN : AddSchema(s, n, t, r)
             \/ AddNamed(s, n) \/ Delete(s, n) \/ Unrequire(s, n) \/ SetDefault(s, n)
             \/ \E m \in Names : Rename(s, n, m)
        \/ \E s \in Slots : Schema(s) \/ Validate(s) \/ ToJson(s) \/ Pickle(s)
        \/ Copy
Spec == Init /\ [][Next]_vars

--------------------------------------------------------------------------------
(* observable views *)
SchemaView(s) == LET c == Filled(s) IN          \* what grammar.schema returns
  IF Code THEN [props |-> Dom(c.e), has |-> c.has, req |-> IF c.has THEN c.req ELSE {}]
  ELSE [props |-> Dom(c.e), has |-> Req(s) # {}, req |-> Req(s)]
JsonView(s) ==                                  \* what to_json() returns
  IF Code THEN [props |-> Dom(el[s]), has |-> Synced(s).has, req |-> IF Synced(s).has THEN Synced(s).req ELSE {}]
  ELSE [props |-> Dom(el[s]), has |-> Req(s) # {}, req |-> Req(s)]
Exported(s) == [props |-> Dom(el[s]), has |-> Req(s) # {}, req |-> Req(s)]

TypeOK == /\ el \in [Slots -> Elems] /\ heap \in [Slots -> SUBSET Names] /\ nops \in 0..MaxOps
          /\ \A s \in Slots : rn[s].ref \in Slots /\ rn[s].owner \in Slots

(* validation never uses a stale definition *)
NoStaleValidator == \A s \in Slots : (live[s] /\ val[s].some) => val[s].e = el[s]
(* required names only refer to existing elements *)
WellFormed == \A s \in Slots : live[s] => Req(s) \subseteq Dom(el[s])
(* defaults only refer to existing elements, and each grammar checks them against itself *)
DefaultsWellFormed == \A s \in Slots : live[s] => df[s].names \subseteq Dom(el[s])
DefaultsBound == \A s \in Slots : live[s] => df[s].owner = s
(* two grammar objects never share their required names, and each checks names against itself *)
NoSharing == \A s \in Slots : live[s] => (rn[s].owner = s /\ \A t \in Slots \ {s} : live[t] => rn[t].ref # rn[s].ref)
(* the cached schema is the schema of the current definition *)
SchemaCoherent == \A s \in Slots : (live[s] /\ sch[s].some) => sch[s].e = el[s]
SchemaRequired == \A s \in Slots : live[s] => SchemaView(s) = Exported(s)
(* to_json() exports the definition *)
ExportCorrect == \A s \in Slots : live[s] => JsonView(s) = Exported(s)
(* the required names of an added schema become required *)
SchemaAdds == [][\A s \in Slots, n \in Names, t \in Types :
                   AddSchema(s, n, t, TRUE) => n \in heap'[rn'[s].ref]]_vars
================================================================================
