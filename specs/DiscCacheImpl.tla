---------------------------- MODULE DiscCacheImpl ----------------------------
(* C05 - implementation-shaped model of Discipline.execute/linearize on top of          *)
(* SimpleCache / BaseFullCache (MemoryFullCache shared or local, HDF5Cache), as read in *)
(* base_discipline.py, discipline.py, simple_cache.py, base_full_cache.py,              *)
(* memory_full_cache.py, hdf5_cache.py.  It extends the property layer DiscCache:       *)
(* every step feeds what the call returned into Observe(), and the clauses of DiscCache *)
(* are invariants of this module.  The labelled state graph of this module is the       *)
(* source of the transition tour replayed on the real objects.                          *)
(*                                                                                      *)
(* What is implementation-shaped: the entry table (stored input, stored output and      *)
(* Jacobian groups), storage BY REFERENCE or BY COPY of the caller's input array and of *)
(* the discipline's output buffer, the hash index (hash taken at store time, lookup by  *)
(* hash then comparison for exact matching, scan in hash-insertion order for a          *)
(* tolerance), the "is it the same entry" test used when storing, and the discipline's  *)
(* own Jacobian state (self.jac / self._has_jacobian).                                  *)
(*                                                                                      *)
(* Deviations.  The intended rules are modelled when RefIn, RefOut and SimpleMerge are  *)
(* FALSE; the rules of the code as read today that TLC refutes are kept as switches,    *)
(* used only to show the refutation and to classify a disagreement of the real code:    *)
(*   RefIn/RefOut : MemoryFullCache(is_memory_shared=False)._write_data does            *)
(*                  copy(values): the entry keeps the caller's array objects (D4);      *)
(*   SimpleMerge  : SimpleCache.cache_outputs/cache_jacobian decide "same entry" with   *)
(*                  the tolerance, so data computed at x are filed under a stored x'    *)
(*                  that is merely near x, and are later served for a third input near  *)
(*                  x' but not near x;                                                  *)
(*   ShadowScan   : BaseFullCache.__getitem__ with a tolerance returns the FIRST stored  *)
(*                  input within tolerance in scan order, whatever groups that entry     *)
(*                  holds: an entry holding a Jacobian only (linearize(x2) served by the *)
(*                  outputs of a close x1 files J under x2) shadows the later entry that *)
(*                  holds the outputs of x3 ~ x2: the body runs at EVERY execution of x3;*)
(*   StaleMembers : a process discipline (MDOChain) differentiates its members at THEIR  *)
(*                  local data, i.e. at the input of the latest body run of the process, *)
(*                  not at the input of the call, when the outputs came from the cache.  *)
EXTENDS DiscCache

CONSTANTS RefIn, RefOut, SimpleMerge,
          Inplace,     \* the discipline writes its outputs into persistent arrays
          Collide,     \* hash collisions (hash = parity of the lattice index)
          LinModes,    \* subset of {"all", "sub"}
          ExecFlags,   \* subset of BOOLEAN: values of linearize(execute=...)
          LitXs,       \* lattice indices passed as fresh literal arrays (not cells)
          LinZArgs,    \* how "z" is passed to linearize (subset of ZArgs)
          AnyMatch,    \* with a tolerance, a full cache may serve ANY stored input within tolerance (the
                       \* property leaves the choice open); FALSE: the first one in scan order, as coded
          SelfUpd,     \* the lattice variable "x" is SELF-COUPLED (input and output) and the body updates the
                       \* array it received IN PLACE: x <- FX(x).  The array is the caller's: after a call in
                       \* which the body ran, the caller's cell holds FX(x) (after a cache hit it is untouched)
          KeyAfterRun, \* refuted rule (switch): the entry is filed under the input array as it is AFTER the
                       \* body ran (no pristine copy of the self-coupled inputs taken before the run)
          ShadowScan,  \* refuted rule (switch), see above
          Process,     \* the discipline is a PROCESS discipline (a chain of member disciplines with the cache
                       \* at the level of the chain): its Jacobian is assembled from the members' Jacobians
          StaleMembers,\* refuted rule (switch), see above
          Diff0        \* differentiated inputs/outputs declared before the history starts (level 0, 1 or 2)

VARIABLES entries,   \* sequence of entry records (index order of the cache)
          dHasJac,   \* discipline._has_jacobian
          dJac,      \* discipline.jac as [src, lvl]   (lvl = 0: empty)
          diffLvl,   \* differentiated inputs/outputs declared so far (0, 1, 2)
          buf,       \* point whose outputs are in the discipline's output buffer (Inplace)
          fromFile   \* HDF5: the entries whose hash index was rebuilt from the hashes stored in the file
                     \* (Reopen: all of them; entries written by this cache object are indexed with the
                     \* hash of the input data as passed).  A call served after a Reopen goes through it.
ivars == <<entries, dHasJac, dJac, diffLvl, buf, fromFile>>
vars  == <<avars, ivars>>

NoCell == "lit"
\* the state update of the self-coupled flavour: a map of the lattice onto itself (cyclic successor), so
\* that feeding an output back as the next input stays on the lattice; printed for the harness discipline
FX(i) == (i % Len(XV)) + 1
ASSUME PrintT(<<"FX", [i \in XI |-> FX(i)]>>)
ASSUME SelfUpd => (LinModes = {})     \* execution histories only (see c05.py)
ASSUME Process => (~SelfUpd /\ ~Inplace)
H(p) == IF Collide THEN <<p[1] % 2, 0>> ELSE p
\* the hash table, printed once so that the harness can give the real caches a hash function with exactly
\* these collisions (test double for the hash library, see c05.py)
ASSUME PrintT(<<"HASH", [p \in Points |-> H(p)]>>)
\* what the stored groups of an entry read NOW
StoredInAt(e, cl) == IF RefIn /\ e.ref # NoCell THEN <<cl[e.ref], e.in[2]>> ELSE e.in
StoredIn(e)  == StoredInAt(e, cell)
StoredOut(e) == IF RefOut /\ Inplace THEN buf ELSE e.osrc
\* compare_dict_of_arrays(new, cached, tolerance): the reference norm is that of the NEW input
\* (values without a norm - strings, lists - are within tolerance iff equal)
MatchTol(q, c) == IF Tol = 0 \/ ~Numeric(vkind) THEN q = c
                  ELSE q[2] = c[2] /\ NearRef(q[1], c[1], XV[q[1]])
Idx == 1..Len(entries)
Min(S) == CHOOSE i \in S : \A j \in S : i <= j

\* ---- BaseFullCache.__getitem__ / SimpleCache.__getitem__: index of the entry read, 0 if none
FirstOfHash(i) == Min({j \in Idx : H(entries[j].in) = H(entries[i].in)})
Before(i, j) == \/ FirstOfHash(i) < FirstOfHash(j)
                \/ (FirstOfHash(i) = FirstOfHash(j) /\ i <= j)
\* tolerance scan of a full cache: the stored inputs within tolerance; one that holds OUTPUTS is
\* preferred to one that does not (intended rule; ShadowScan: no preference)
Candidates(x) ==
    LET c  == {i \in Idx : MatchTol(x, StoredIn(entries[i]))}
        co == {i \in c : entries[i].hasOut}
    IN IF ShadowScan \/ co = {} THEN c ELSE co
Lookup(x) ==
    IF Kind = "simple"
    THEN (IF Len(entries) = 1 /\ MatchTol(x, StoredIn(entries[1])) THEN 1 ELSE 0)
    ELSE IF Tol = 0
    THEN LET c == {i \in Idx : H(entries[i].in) = H(x) /\ StoredIn(entries[i]) = x}
         IN IF c = {} THEN 0 ELSE Min(c)
    ELSE LET c == Candidates(x)
         IN IF c = {} THEN 0 ELSE CHOOSE i \in c : \A j \in c : Before(i, j)

\* ---- "is this input already stored" when writing into the table es
\*      full caches: by hash, then exact comparison (__ensure_input_data_exists)
\*      SimpleCache: __is_cached, i.e. with the tolerance (SimpleMerge) / exactly (intended)
StoreIdx(es, x) ==
    IF Kind = "simple"
    THEN (IF Len(es) = 1 /\ (IF SimpleMerge THEN MatchTol(x, StoredIn(es[1])) ELSE StoredIn(es[1]) = x)
          THEN 1 ELSE 0)
    ELSE LET c == {i \in 1..Len(es) : H(es[i].in) = H(x) /\ StoredIn(es[i]) = x}
         IN IF c = {} THEN 0 ELSE Min(c)

\* (the caller's array an entry was built from only matters when inputs are kept by reference)
NewEntry(x, ref) == [in |-> x, ref |-> IF RefIn THEN ref ELSE NoCell, hasOut |-> FALSE, osrc |-> P0,
                     jl |-> 0, jsrc |-> P0]
\* cache_outputs(k, G(o)): the outputs computed at o are filed under the input k (k = o: the input of the call)
WithOutputs(es, k, o, ref, i) ==
    IF i # 0 THEN (IF es[i].hasOut THEN es ELSE [es EXCEPT ![i].hasOut = TRUE, ![i].osrc = o])
    ELSE LET e == [NewEntry(k, ref) EXCEPT !.hasOut = TRUE, !.osrc = o]
         IN IF Kind = "simple" THEN <<e>> ELSE Append(es, e)
\* cache_jacobian(x, J(o) restricted to level l)   (o = x: the Jacobian at the input of the call)
WithJacobian(es, x, o, ref, i, l) ==
    IF i # 0 THEN (IF es[i].jl > 0 THEN es ELSE [es EXCEPT ![i].jl = l, ![i].jsrc = o])
    ELSE LET e == [NewEntry(x, ref) EXCEPT !.jl = l, !.jsrc = o]
         IN IF Kind = "simple" THEN <<e>> ELSE Append(es, e)

NoJac == [src |-> P0, lvl |-> 0]

\* the entries a lookup may return (a single one unless AnyMatch)
LookupSet(x) ==
    IF Kind = "none" THEN {0}
    ELSE IF AnyMatch /\ Tol > 0 /\ Full
    THEN LET c == Candidates(x) IN IF c = {} THEN {0} ELSE c
    ELSE {Lookup(x)}

\* ---- BaseDiscipline.execute as a function of the current state and of the entry i the lookup
\*      returned (0: none): the record of its effects
ExecEffect(x, ref, i) ==
    LET hit == i # 0 /\ entries[i].hasOut
    IN IF hit
       THEN [ran |-> FALSE, src |-> StoredOut(entries[i]), es |-> entries, hj |-> TRUE,
             jac |-> IF entries[i].jl > 0 THEN [src |-> entries[i].jsrc, lvl |-> entries[i].jl] ELSE NoJac,
             buf |-> buf]
       ELSE LET key == IF SelfUpd /\ KeyAfterRun THEN <<FX(x[1]), x[2]>> ELSE x   \* the input AT CALL TIME
            IN [ran |-> TRUE, src |-> x,
                es |-> IF Kind = "none" THEN entries ELSE WithOutputs(entries, key, x, ref, StoreIdx(entries, key)),
                hj |-> FALSE, jac |-> dJac, buf |-> x]

DoExecute(x, ref) ==
    \E i \in LookupSet(x) :
    LET f == ExecEffect(x, ref, i)
        r == [NoRet EXCEPT !.op = "exec", !.x = x, !.hasOut = TRUE, !.src = f.src, !.ran = f.ran]
    IN /\ entries' = f.es /\ dHasJac' = f.hj /\ dJac' = f.jac /\ buf' = f.buf
       /\ Observe(r) /\ UNCHANGED <<diffLvl, fromFile>>
       /\ cell' = IF SelfUpd /\ f.ran /\ ref # NoCell THEN [cell EXCEPT ![ref] = FX(cell[ref])] ELSE cell

\* ---- Discipline.linearize(x, compute_all_jacobians = (req = 3), execute = ex)
DoLinearize(x, ref, req, ex) ==
    \E i \in LookupSet(x) :
    LET f   == IF ex THEN ExecEffect(x, ref, i)
               ELSE [ran |-> FALSE, src |-> P0, es |-> entries, hj |-> dHasJac, jac |-> dJac, buf |-> buf]
        \* "if self._has_jacobian and self.jac" and the requested pairs are all there
        reuse == f.hj /\ f.jac.lvl >= req
        \* where the Jacobian body differentiates: at the input of the call; a process discipline
        \* assembles the Jacobians of its members, which (StaleMembers) are where the latest body run
        \* of the process left them when the outputs of this call came from the cache
        jat == IF Process /\ StaleMembers /\ ~f.ran THEN lastRun ELSE x
        \* cache_jacobian looks the input up in the table as it is after cache_outputs
        es2 == IF reuse \/ Kind = "none" THEN f.es
               ELSE WithJacobian(f.es, x, jat, ref, StoreIdx(f.es, x), req)
        j   == IF reuse THEN f.jac ELSE [src |-> jat, lvl |-> req]
        r   == [op |-> "lin", x |-> x, hasOut |-> ex, src |-> f.src, ran |-> f.ran, req |-> req,
                jl |-> j.lvl, jsrc |-> j.src, lin |-> ~reuse]
    IN /\ (~ex => (ret.op # "init" /\ ret.x = x))     \* execute=False: the discipline was just executed at x
       /\ entries' = es2 /\ dHasJac' = f.hj /\ dJac' = j /\ buf' = f.buf
       /\ Observe(r) /\ UNCHANGED <<cell, diffLvl, fromFile>>

\* ---- the actions (labels of the state graph)
\* (the leading conjunct keeps the action's own name and arguments on the edges of the dumped graph)
Execute(c, za)    == /\ c \in Cells /\ DoExecute(<<cell[c], ZI(za)>>, c)
ExecuteLit(xi)    == /\ xi \in XI /\ DoExecute(<<xi, 0>>, NoCell)
LinearizeLit(xi)  == /\ xi \in XI /\ "all" \in LinModes /\ DoLinearize(<<xi, 0>>, NoCell, 3, TRUE)
Linearize(c, za, mode, ex) ==
    /\ (mode = "sub" => diffLvl >= 1)
    /\ DoLinearize(<<cell[c], ZI(za)>>, c, IF mode = "all" THEN 3 ELSE diffLvl, ex)
\* in-place edit by the caller; what the entries read afterwards vs before (the output groups are
\* never the caller's)
MutateCell(c, v)  == /\ cell[c] # v /\ cell' = [cell EXCEPT ![c] = v]
                     /\ ObserveMutate(\A i \in Idx : StoredInAt(entries[i], cell') = StoredIn(entries[i]))
                     /\ UNCHANGED ivars
SetDiff           == /\ diffLvl < 2 /\ diffLvl' = diffLvl + 1
                     /\ UNCHANGED <<avars, entries, dHasJac, dJac, buf, fromFile>>
\* cache.clear().  HDF5Cache.clear() on a node that was never written raises KeyError (D13, outside
\* the listed statement): the action is offered on a non-empty table only.
ClearCache        == /\ Kind # "none" /\ Len(entries) > 0
                     /\ entries' = <<>> /\ fromFile' = {} /\ ObserveReset
                     /\ UNCHANGED <<cell, dHasJac, dJac, diffLvl, buf>>
\* discipline.set_cache(same type): a new cache object.  In memory: empty.  HDF5 on the same
\* file and node (Reopen): the entries of the file.
SetCache          == /\ Kind \in {"simple", "memShared", "memLocal"}
                     /\ entries' = <<>> /\ fromFile' = {} /\ ObserveReset
                     /\ UNCHANGED <<cell, dHasJac, dJac, diffLvl, buf>>
Reopen            == /\ Kind = "hdf5"
                     /\ ObserveReopen(TRUE)        \* the table is the file: entries' = entries
                     /\ fromFile' = Idx
                     /\ UNCHANGED <<cell, entries, dHasJac, dJac, diffLvl, buf>>

Init == /\ cell = [c \in Cells |-> IF c = "c1" THEN 1 ELSE 2]
        /\ vkind \in VKinds
        /\ HInit
        /\ entries = <<>> /\ dHasJac = FALSE /\ dJac = NoJac /\ diffLvl = Diff0 /\ buf = P0 /\ fromFile = {}
Next == \/ \E c \in Cells, za \in ZArgs : Execute(c, za)
        \/ \E xi \in LitXs : ExecuteLit(xi) \/ LinearizeLit(xi)
        \/ \E c \in Cells, za \in LinZArgs, m \in LinModes, ex \in ExecFlags : Linearize(c, za, m, ex)
        \/ \E c \in Cells, v \in XI : MutateCell(c, v)
        \/ SetDiff \/ ClearCache \/ SetCache \/ Reopen
ISpec == Init /\ [][Next]_vars

---------------------------------------------------------------------------------
\* StoredByCopy (the structural form of CallerCannotCorrupt): what an entry reads now is what was stored
StoredByCopy ==
    \A i \in Idx : /\ StoredIn(entries[i]) = entries[i].in
                   /\ (entries[i].hasOut => StoredOut(entries[i]) = entries[i].osrc)
\* the entry table is coherent with the history: stored groups were computed by a body run,
\* at the stored input (full caches file every group under its exact input)
Coherent ==
    \A i \in Idx : LET e == entries[i] IN
       /\ (e.hasOut => e.osrc \in runs /\ Admissible(e.in, e.osrc))
       /\ (e.jl > 0 => e.jsrc \in lins /\ Admissible(e.in, e.jsrc))
       /\ (Full => ((e.hasOut => e.osrc = e.in) /\ (e.jl > 0 => e.jsrc = e.in)))
       /\ (Kind = "simple" => Len(entries) <= 1)
\* a full cache holds each distinct input once (the meaning of len(cache))
DistinctInputs == Full => \A i, j \in Idx : (entries[i].in = entries[j].in) => (i = j)
\* tolerance 0, full cache: every point the body ran at since the last reset is in the table
Complete == (Full /\ Tol = 0) => \A p \in since : \E i \in Idx : entries[i].in = p /\ entries[i].hasOut
ITypeOK == TypeOK /\ diffLvl \in 0..2 /\ dJac.lvl \in 0..3
=================================================================================
