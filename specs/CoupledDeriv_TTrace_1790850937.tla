---- MODULE CoupledDeriv_TTrace_1790850937 ----
EXTENDS Sequences, TLCExt, CoupledDeriv, Toolbox, Naturals, TLC

_expression ==
    LET CoupledDeriv_TEExpression == INSTANCE CoupledDeriv_TEExpression
    IN CoupledDeriv_TEExpression!expression
----

_trace ==
    LET CoupledDeriv_TETrace == INSTANCE CoupledDeriv_TETrace
    IN CoupledDeriv_TETrace!trace
----

_inv ==
    ~(
        TLCGet("level") = Len(_TETrace)
        /\
        hist = (<<<<{"x0", "x1"}, {"s", "f0", "y0", "y1"}, "direct">>, <<{"x0"}, {"s", "f0", "y0", "y1"}, "direct">>>>)
        /\
        last = (<<{"x0"}, {"s", "f0", "y0", "y1"}>>)
        /\
        err = ("none")
        /\
        mc = ({"y0", "y1"})
        /\
        inst = ([S |-> <<[ins |-> {"x0", "y1"}, outs |-> {"f0", "y0"}], [ins |-> {"y0"}, outs |-> {"y1"}], [ins |-> {"s", "x1", "y0"}, outs |-> {"s", "f2"}]>>, J |-> [s |-> [s |-> <<<<0, 1>>, <<0, 0>>>>, x1 |-> <<<<-1>>, <<0>>>>, y0 |-> <<<<0>>, <<1>>>>], f0 |-> [x0 |-> <<<<0>>, <<1>>>>, y1 |-> <<<<0>>, <<1>>>>], f2 |-> [s |-> <<<<0, -1>>>>, x1 |-> <<<<1>>>>, y0 |-> <<<<0>>>>], y0 |-> [x0 |-> <<<<-2>>>>, y1 |-> <<<<0>>>>], y1 |-> [y0 |-> <<<<0>>>>]], key |-> <<"seq", 5, <<1, 2, 1, 1>>, 1>>, topo |-> "seq", size |-> [s |-> 2, f0 |-> 2, f2 |-> 1, x0 |-> 1, x1 |-> 1, y0 |-> 1, y1 |-> 1], nilp |-> TRUE, cf |-> [s |-> [x0 |-> <<<<-2>>, <<-2>>>>, x1 |-> <<<<-1>>, <<0>>>>], f0 |-> [x0 |-> <<<<0>>, <<1>>>>, x1 |-> <<<<0>>, <<0>>>>], f2 |-> [x0 |-> <<<<2>>>>, x1 |-> <<<<1>>>>], y0 |-> [x0 |-> <<<<-2>>>>, x1 |-> <<<<0>>>>], y1 |-> [x0 |-> <<<<0>>>>, x1 |-> <<<<0>>>>]], R |-> [N |-> {{3}, {1, 2}}, mg |-> {{3}, {1, 2}}, nin |-> ({3} :> {"x1"} @@ {1, 2} :> {"x0"}), nout |-> ({3} :> {"s", "f2"} @@ {1, 2} :> {"f0", "y0", "y1"}), E |-> {}, reach |-> ({3} :> {{3}} @@ {1, 2} :> {{1, 2}}), added |-> ({3} :> {"s", "y0", "y1"} @@ {1, 2} :> {"s", "y0", "y1"}), grp |-> <<{1, 2}, {1, 2}, {3}>>, cpl |-> {"s", "y0", "y1"}], prod |-> [s |-> 3, f0 |-> 1, f2 |-> 3, y0 |-> 1, y1 |-> 2], rules |-> "asread", allD |-> [s |-> [x0 |-> <<<<-2>>, <<-2>>>>, x1 |-> <<<<-1>>, <<0>>>>], f0 |-> [x0 |-> <<<<0>>, <<1>>>>, x1 |-> <<<<0>>, <<0>>>>], f2 |-> [x0 |-> <<<<2>>>>, x1 |-> <<<<1>>>>], y0 |-> [x0 |-> <<<<-2>>>>, x1 |-> <<<<0>>>>], y1 |-> [x0 |-> <<<<0>>>>, x1 |-> <<<<0>>>>]], allA |-> [s |-> [x0 |-> <<<<-2>>, <<-2>>>>, x1 |-> <<<<-1>>, <<0>>>>], f0 |-> [x0 |-> <<<<0>>, <<1>>>>, x1 |-> <<<<0>>, <<0>>>>], f2 |-> [x0 |-> <<<<2>>>>, x1 |-> <<<<1>>>>], y0 |-> [x0 |-> <<<<-2>>>>, x1 |-> <<<<0>>>>], y1 |-> [x0 |-> <<<<0>>>>, x1 |-> <<<<0>>>>]]])
        /\
        tot = ([s |-> [x0 |-> <<<<0>>, <<-2>>>>], f0 |-> [x0 |-> <<<<0>>, <<1>>>>], y0 |-> [x0 |-> <<<<-2>>>>], y1 |-> [x0 |-> <<<<0>>>>]])
        /\
        dio = (<<[i |-> {"x0", "y1"}, o |-> {"f0", "y0"}], [i |-> {"y0"}, o |-> {"y1"}], [i |-> {"s", "x1", "y0"}, o |-> {"s"}]>>)
    )
----

_init ==
    /\ mc = _TETrace[1].mc
    /\ tot = _TETrace[1].tot
    /\ hist = _TETrace[1].hist
    /\ last = _TETrace[1].last
    /\ dio = _TETrace[1].dio
    /\ inst = _TETrace[1].inst
    /\ err = _TETrace[1].err
----

_next ==
    /\ \E i,j \in DOMAIN _TETrace:
        /\ \/ /\ j = i + 1
              /\ i = TLCGet("level")
        /\ mc  = _TETrace[i].mc
        /\ mc' = _TETrace[j].mc
        /\ tot  = _TETrace[i].tot
        /\ tot' = _TETrace[j].tot
        /\ hist  = _TETrace[i].hist
        /\ hist' = _TETrace[j].hist
        /\ last  = _TETrace[i].last
        /\ last' = _TETrace[j].last
        /\ dio  = _TETrace[i].dio
        /\ dio' = _TETrace[j].dio
        /\ inst  = _TETrace[i].inst
        /\ inst' = _TETrace[j].inst
        /\ err  = _TETrace[i].err
        /\ err' = _TETrace[j].err

\* Uncomment the ASSUME below to write the states of the error trace
\* to the given file in Json format. Note that you can pass any tuple
\* to `JsonSerialize`. For example, a sub-sequence of _TETrace.
    \* ASSUME
    \*     LET J == INSTANCE Json
    \*         IN J!JsonSerialize("CoupledDeriv_TTrace_1790850937.json", _TETrace)

=============================================================================

 Note that you can extract this module `CoupledDeriv_TEExpression`
  to a dedicated file to reuse `expression` (the module in the 
  dedicated `CoupledDeriv_TEExpression.tla` file takes precedence 
  over the module `CoupledDeriv_TEExpression` below).

---- MODULE CoupledDeriv_TEExpression ----
EXTENDS Sequences, TLCExt, CoupledDeriv, Toolbox, Naturals, TLC

expression == 
    [
        \* To hide variables of the `CoupledDeriv` spec from the error trace,
        \* remove the variables below.  The trace will be written in the order
        \* of the fields of this record.
        mc |-> mc
        ,tot |-> tot
        ,hist |-> hist
        ,last |-> last
        ,dio |-> dio
        ,inst |-> inst
        ,err |-> err
        
        \* Put additional constant-, state-, and action-level expressions here:
        \* ,_stateNumber |-> _TEPosition
        \* ,_mcUnchanged |-> mc = mc'
        
        \* Format the `mc` variable as Json value.
        \* ,_mcJson |->
        \*     LET J == INSTANCE Json
        \*     IN J!ToJson(mc)
        
        \* Lastly, you may build expressions over arbitrary sets of states by
        \* leveraging the _TETrace operator.  For example, this is how to
        \* count the number of times a spec variable changed up to the current
        \* state in the trace.
        \* ,_mcModCount |->
        \*     LET F[s \in DOMAIN _TETrace] ==
        \*         IF s = 1 THEN 0
        \*         ELSE IF _TETrace[s].mc # _TETrace[s-1].mc
        \*             THEN 1 + F[s-1] ELSE F[s-1]
        \*     IN F[_TEPosition - 1]
    ]

=============================================================================



Parsing and semantic processing can take forever if the trace below is long.
 In this case, it is advised to uncomment the module below to deserialize the
 trace from a generated binary file.

\*
\*---- MODULE CoupledDeriv_TETrace ----
\*EXTENDS IOUtils, CoupledDeriv, TLC
\*
\*trace == IODeserialize("CoupledDeriv_TTrace_1790850937.bin", TRUE)
\*
\*=============================================================================
\*

---- MODULE CoupledDeriv_TETrace ----
EXTENDS CoupledDeriv, TLC

trace == 
    <<
    ([hist |-> <<>>,last |-> <<{}, {}>>,err |-> "none",mc |-> {},inst |-> [S |-> <<[ins |-> {"x0", "y1"}, outs |-> {"f0", "y0"}], [ins |-> {"y0"}, outs |-> {"y1"}], [ins |-> {"s", "x1", "y0"}, outs |-> {"s", "f2"}]>>, J |-> [s |-> [s |-> <<<<0, 1>>, <<0, 0>>>>, x1 |-> <<<<-1>>, <<0>>>>, y0 |-> <<<<0>>, <<1>>>>], f0 |-> [x0 |-> <<<<0>>, <<1>>>>, y1 |-> <<<<0>>, <<1>>>>], f2 |-> [s |-> <<<<0, -1>>>>, x1 |-> <<<<1>>>>, y0 |-> <<<<0>>>>], y0 |-> [x0 |-> <<<<-2>>>>, y1 |-> <<<<0>>>>], y1 |-> [y0 |-> <<<<0>>>>]], key |-> <<"seq", 5, <<1, 2, 1, 1>>, 1>>, topo |-> "seq", size |-> [s |-> 2, f0 |-> 2, f2 |-> 1, x0 |-> 1, x1 |-> 1, y0 |-> 1, y1 |-> 1], nilp |-> TRUE, cf |-> [s |-> [x0 |-> <<<<-2>>, <<-2>>>>, x1 |-> <<<<-1>>, <<0>>>>], f0 |-> [x0 |-> <<<<0>>, <<1>>>>, x1 |-> <<<<0>>, <<0>>>>], f2 |-> [x0 |-> <<<<2>>>>, x1 |-> <<<<1>>>>], y0 |-> [x0 |-> <<<<-2>>>>, x1 |-> <<<<0>>>>], y1 |-> [x0 |-> <<<<0>>>>, x1 |-> <<<<0>>>>]], R |-> [N |-> {{3}, {1, 2}}, mg |-> {{3}, {1, 2}}, nin |-> ({3} :> {"x1"} @@ {1, 2} :> {"x0"}), nout |-> ({3} :> {"s", "f2"} @@ {1, 2} :> {"f0", "y0", "y1"}), E |-> {}, reach |-> ({3} :> {{3}} @@ {1, 2} :> {{1, 2}}), added |-> ({3} :> {"s", "y0", "y1"} @@ {1, 2} :> {"s", "y0", "y1"}), grp |-> <<{1, 2}, {1, 2}, {3}>>, cpl |-> {"s", "y0", "y1"}], prod |-> [s |-> 3, f0 |-> 1, f2 |-> 3, y0 |-> 1, y1 |-> 2], rules |-> "asread", allD |-> [s |-> [x0 |-> <<<<-2>>, <<-2>>>>, x1 |-> <<<<-1>>, <<0>>>>], f0 |-> [x0 |-> <<<<0>>, <<1>>>>, x1 |-> <<<<0>>, <<0>>>>], f2 |-> [x0 |-> <<<<2>>>>, x1 |-> <<<<1>>>>], y0 |-> [x0 |-> <<<<-2>>>>, x1 |-> <<<<0>>>>], y1 |-> [x0 |-> <<<<0>>>>, x1 |-> <<<<0>>>>]], allA |-> [s |-> [x0 |-> <<<<-2>>, <<-2>>>>, x1 |-> <<<<-1>>, <<0>>>>], f0 |-> [x0 |-> <<<<0>>, <<1>>>>, x1 |-> <<<<0>>, <<0>>>>], f2 |-> [x0 |-> <<<<2>>>>, x1 |-> <<<<1>>>>], y0 |-> [x0 |-> <<<<-2>>>>, x1 |-> <<<<0>>>>], y1 |-> [x0 |-> <<<<0>>>>, x1 |-> <<<<0>>>>]]],tot |-> <<>>,dio |-> <<[i |-> {}, o |-> {}], [i |-> {}, o |-> {}], [i |-> {}, o |-> {}]>>]),
    ([hist |-> <<<<{"x0", "x1"}, {"s", "f0", "y0", "y1"}, "direct">>>>,last |-> <<{"x0", "x1"}, {"s", "f0", "y0", "y1"}>>,err |-> "none",mc |-> {"s", "y0", "y1"},inst |-> [S |-> <<[ins |-> {"x0", "y1"}, outs |-> {"f0", "y0"}], [ins |-> {"y0"}, outs |-> {"y1"}], [ins |-> {"s", "x1", "y0"}, outs |-> {"s", "f2"}]>>, J |-> [s |-> [s |-> <<<<0, 1>>, <<0, 0>>>>, x1 |-> <<<<-1>>, <<0>>>>, y0 |-> <<<<0>>, <<1>>>>], f0 |-> [x0 |-> <<<<0>>, <<1>>>>, y1 |-> <<<<0>>, <<1>>>>], f2 |-> [s |-> <<<<0, -1>>>>, x1 |-> <<<<1>>>>, y0 |-> <<<<0>>>>], y0 |-> [x0 |-> <<<<-2>>>>, y1 |-> <<<<0>>>>], y1 |-> [y0 |-> <<<<0>>>>]], key |-> <<"seq", 5, <<1, 2, 1, 1>>, 1>>, topo |-> "seq", size |-> [s |-> 2, f0 |-> 2, f2 |-> 1, x0 |-> 1, x1 |-> 1, y0 |-> 1, y1 |-> 1], nilp |-> TRUE, cf |-> [s |-> [x0 |-> <<<<-2>>, <<-2>>>>, x1 |-> <<<<-1>>, <<0>>>>], f0 |-> [x0 |-> <<<<0>>, <<1>>>>, x1 |-> <<<<0>>, <<0>>>>], f2 |-> [x0 |-> <<<<2>>>>, x1 |-> <<<<1>>>>], y0 |-> [x0 |-> <<<<-2>>>>, x1 |-> <<<<0>>>>], y1 |-> [x0 |-> <<<<0>>>>, x1 |-> <<<<0>>>>]], R |-> [N |-> {{3}, {1, 2}}, mg |-> {{3}, {1, 2}}, nin |-> ({3} :> {"x1"} @@ {1, 2} :> {"x0"}), nout |-> ({3} :> {"s", "f2"} @@ {1, 2} :> {"f0", "y0", "y1"}), E |-> {}, reach |-> ({3} :> {{3}} @@ {1, 2} :> {{1, 2}}), added |-> ({3} :> {"s", "y0", "y1"} @@ {1, 2} :> {"s", "y0", "y1"}), grp |-> <<{1, 2}, {1, 2}, {3}>>, cpl |-> {"s", "y0", "y1"}], prod |-> [s |-> 3, f0 |-> 1, f2 |-> 3, y0 |-> 1, y1 |-> 2], rules |-> "asread", allD |-> [s |-> [x0 |-> <<<<-2>>, <<-2>>>>, x1 |-> <<<<-1>>, <<0>>>>], f0 |-> [x0 |-> <<<<0>>, <<1>>>>, x1 |-> <<<<0>>, <<0>>>>], f2 |-> [x0 |-> <<<<2>>>>, x1 |-> <<<<1>>>>], y0 |-> [x0 |-> <<<<-2>>>>, x1 |-> <<<<0>>>>], y1 |-> [x0 |-> <<<<0>>>>, x1 |-> <<<<0>>>>]], allA |-> [s |-> [x0 |-> <<<<-2>>, <<-2>>>>, x1 |-> <<<<-1>>, <<0>>>>], f0 |-> [x0 |-> <<<<0>>, <<1>>>>, x1 |-> <<<<0>>, <<0>>>>], f2 |-> [x0 |-> <<<<2>>>>, x1 |-> <<<<1>>>>], y0 |-> [x0 |-> <<<<-2>>>>, x1 |-> <<<<0>>>>], y1 |-> [x0 |-> <<<<0>>>>, x1 |-> <<<<0>>>>]]],tot |-> [s |-> [x0 |-> <<<<-2>>, <<-2>>>>, x1 |-> <<<<-1>>, <<0>>>>], f0 |-> [x0 |-> <<<<0>>, <<1>>>>, x1 |-> <<<<0>>, <<0>>>>], y0 |-> [x0 |-> <<<<-2>>>>, x1 |-> <<<<0>>>>], y1 |-> [x0 |-> <<<<0>>>>, x1 |-> <<<<0>>>>]],dio |-> <<[i |-> {"x0", "y1"}, o |-> {"f0", "y0"}], [i |-> {"y0"}, o |-> {"y1"}], [i |-> {"s", "x1", "y0"}, o |-> {"s"}]>>]),
    ([hist |-> <<<<{"x0", "x1"}, {"s", "f0", "y0", "y1"}, "direct">>, <<{"x0"}, {"s", "f0", "y0", "y1"}, "direct">>>>,last |-> <<{"x0"}, {"s", "f0", "y0", "y1"}>>,err |-> "none",mc |-> {"y0", "y1"},inst |-> [S |-> <<[ins |-> {"x0", "y1"}, outs |-> {"f0", "y0"}], [ins |-> {"y0"}, outs |-> {"y1"}], [ins |-> {"s", "x1", "y0"}, outs |-> {"s", "f2"}]>>, J |-> [s |-> [s |-> <<<<0, 1>>, <<0, 0>>>>, x1 |-> <<<<-1>>, <<0>>>>, y0 |-> <<<<0>>, <<1>>>>], f0 |-> [x0 |-> <<<<0>>, <<1>>>>, y1 |-> <<<<0>>, <<1>>>>], f2 |-> [s |-> <<<<0, -1>>>>, x1 |-> <<<<1>>>>, y0 |-> <<<<0>>>>], y0 |-> [x0 |-> <<<<-2>>>>, y1 |-> <<<<0>>>>], y1 |-> [y0 |-> <<<<0>>>>]], key |-> <<"seq", 5, <<1, 2, 1, 1>>, 1>>, topo |-> "seq", size |-> [s |-> 2, f0 |-> 2, f2 |-> 1, x0 |-> 1, x1 |-> 1, y0 |-> 1, y1 |-> 1], nilp |-> TRUE, cf |-> [s |-> [x0 |-> <<<<-2>>, <<-2>>>>, x1 |-> <<<<-1>>, <<0>>>>], f0 |-> [x0 |-> <<<<0>>, <<1>>>>, x1 |-> <<<<0>>, <<0>>>>], f2 |-> [x0 |-> <<<<2>>>>, x1 |-> <<<<1>>>>], y0 |-> [x0 |-> <<<<-2>>>>, x1 |-> <<<<0>>>>], y1 |-> [x0 |-> <<<<0>>>>, x1 |-> <<<<0>>>>]], R |-> [N |-> {{3}, {1, 2}}, mg |-> {{3}, {1, 2}}, nin |-> ({3} :> {"x1"} @@ {1, 2} :> {"x0"}), nout |-> ({3} :> {"s", "f2"} @@ {1, 2} :> {"f0", "y0", "y1"}), E |-> {}, reach |-> ({3} :> {{3}} @@ {1, 2} :> {{1, 2}}), added |-> ({3} :> {"s", "y0", "y1"} @@ {1, 2} :> {"s", "y0", "y1"}), grp |-> <<{1, 2}, {1, 2}, {3}>>, cpl |-> {"s", "y0", "y1"}], prod |-> [s |-> 3, f0 |-> 1, f2 |-> 3, y0 |-> 1, y1 |-> 2], rules |-> "asread", allD |-> [s |-> [x0 |-> <<<<-2>>, <<-2>>>>, x1 |-> <<<<-1>>, <<0>>>>], f0 |-> [x0 |-> <<<<0>>, <<1>>>>, x1 |-> <<<<0>>, <<0>>>>], f2 |-> [x0 |-> <<<<2>>>>, x1 |-> <<<<1>>>>], y0 |-> [x0 |-> <<<<-2>>>>, x1 |-> <<<<0>>>>], y1 |-> [x0 |-> <<<<0>>>>, x1 |-> <<<<0>>>>]], allA |-> [s |-> [x0 |-> <<<<-2>>, <<-2>>>>, x1 |-> <<<<-1>>, <<0>>>>], f0 |-> [x0 |-> <<<<0>>, <<1>>>>, x1 |-> <<<<0>>, <<0>>>>], f2 |-> [x0 |-> <<<<2>>>>, x1 |-> <<<<1>>>>], y0 |-> [x0 |-> <<<<-2>>>>, x1 |-> <<<<0>>>>], y1 |-> [x0 |-> <<<<0>>>>, x1 |-> <<<<0>>>>]]],tot |-> [s |-> [x0 |-> <<<<0>>, <<-2>>>>], f0 |-> [x0 |-> <<<<0>>, <<1>>>>], y0 |-> [x0 |-> <<<<-2>>>>], y1 |-> [x0 |-> <<<<0>>>>]],dio |-> <<[i |-> {"x0", "y1"}, o |-> {"f0", "y0"}], [i |-> {"y0"}, o |-> {"y1"}], [i |-> {"s", "x1", "y0"}, o |-> {"s"}]>>])
    >>
----


=============================================================================

---- CONFIG CoupledDeriv_TTrace_1790850937 ----
CONSTANTS
    Topos = { "tailx" , "seq" }
    Profiles = { 5 }
    Choices = { 1 , 2 }
    Seeds = { 1 }
    RuleSets = { "asread" , "repaired" }
    MaxHist = 2
    ReqMod = 40
    ReqRes = { 0 }
    Emit = TRUE

INVARIANT
    _inv

CHECK_DEADLOCK
    \* CHECK_DEADLOCK off because of PROPERTY or INVARIANT above.
    FALSE

INIT
    _init

NEXT
    _next

CONSTANT
    _TETrace <- _trace

ALIAS
    _expression
=============================================================================
\* Generated on Thu Oct 01 10:35:44 UTC 2026