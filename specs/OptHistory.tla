------------------------------ MODULE OptHistory ------------------------------
(***************************************************************************)
(* C04 - "The reported optimum is the best point of the recorded history". *)
(*                                                                         *)
(* A pure module (enumeration of instances as initial states).  A state is *)
(* one instance: a problem configuration c and a recorded history h.       *)
(*                                                                         *)
(*   c = [cons  : sequence of constraints [ty : "ineq"|"eq", d : 0|1|2]    *)
(*                (d = 0: recorded as a Python float, d >= 1: as an array  *)
(*                of d components), in the order of problem.constraints,   *)
(*        tolI, tolE : the inequality / equality feasibility tolerances,   *)
(*        max   : the objective is maximised (the history then holds the   *)
(*                values of the STANDARDISED objective "-f"),              *)
(*        std   : use_standardized_objective,                              *)
(*        farr  : the objective is recorded as a size-1 array (else float),*)
(*        gm    : which constraint gradients are recorded (see GradId)]    *)
(*   h = sequence of points [f : <<>> (not recorded) | <<v>>,              *)
(*                           c : per constraint <<>> | <<v1[,v2]>>,        *)
(*                           g : per constraint 0 (not recorded) | id]     *)
(*                                                                         *)
(* All numbers are integers; the binding maps the integer v to the double  *)
(* v/4 (dyadic: every comparison and every square below is exact in IEEE   *)
(* arithmetic as well).  NaN is an integer sentinel of the same type.      *)
(*                                                                         *)
(* (a) Acceptable(c,h,r): the RELATION the property states between the     *)
(*     history and a reported solution r (problem.optimum,                 *)
(*     OptimizationResult.from_optimization_problem).                      *)
(* (b) Select(c,h,brk,emp): a transcription of the algorithm of            *)
(*     OptimizationHistory.optimum / check_design_point_is_feasible /      *)
(*     Constraints.is_point_feasible as coded (brk, emp: the two rules     *)
(*     that D8 is about; TRUE,TRUE = the code as read on the pinned tree). *)
(* TLC checks on every instance (invariants): the design-level theorem     *)
(* Acceptable(c,h,Select(c,h,F,F)) for the repaired rules; that the        *)
(* algorithm AS CODED breaks the relation only in the two classes of D8    *)
(* (CodedOutsideD8; the verdict of the coded variant is emitted with each  *)
(* instance: its counterexamples are the design-level form of D8); that    *)
(* the violation measure as transcribed is the documented formula over the *)
(* recorded constraints (MeasureTheorem).  Each instance is emitted as one *)
(* JSON line (Emit) for the replay on the real Database /                  *)
(* OptimizationProblem; the answers of the real code come back to TLC      *)
(* through OptHistoryReport.tla, which evaluates the relation on them.     *)
(***************************************************************************)
EXTENDS Integers, Sequences, FiniteSets, TLC, Json, IOUtils

CONSTANTS Tier,     \* "quick" | "thorough": the family of bounded instances
          Units     \* this run enumerates the units 10 * i + m of the family: the histories of
                    \* exactly m points of entry i (the checks cut the family into balanced slices)

NaN == 1000        \* recorded, not a number
INF == 1000000     \* +infinity (violation measure of a NaN constraint; the code's initial f_opt)

VARIABLE inst      \* [c |-> configuration, h |-> history]
vars == <<inst>>

-----------------------------------------------------------------------------
(* Feasibility and the constraint-violation measure                        *)

Abs(x) == IF x < 0 THEN -x ELSE x
NCons(c) == Len(c.cons)
IsEq(c, k) == c.cons[k].ty = "eq"
Tol(c, k) == IF IsEq(c, k) THEN c.tolE ELSE c.tolI
Mag(c, k, x) == IF IsEq(c, k) THEN Abs(x) ELSE x          \* g for g <= eps, |h| for |h| <= eps
Recorded(p, k) == p.c[k] # <<>>
HasNaN(s) == \E j \in 1..Len(s) : s[j] = NaN
Within(c, k, s) == ~HasNaN(s) /\ (\A j \in 1..Len(s) : Mag(c, k, s[j]) <= Tol(c, k))
\* a recorded point satisfies every constraint within the tolerances
Feasible(c, p) == \A k \in 1..NCons(c) : Recorded(p, k) /\ Within(c, k, p.c[k])
FeasIdx(c, h) == {i \in 1..Len(h) : Feasible(c, h[i])}

RECURSIVE SumUpTo(_, _)
SumUpTo(f, n) == IF n = 0 THEN 0 ELSE f[n] + SumUpTo(f, n - 1)
Excess(c, k, x) == IF Mag(c, k, x) > Tol(c, k) THEN Mag(c, k, x) - Tol(c, k) ELSE 0
Plus(a, b) == IF a >= INF \/ b >= INF THEN INF ELSE a + b
\* || max(g - eps, 0) ||^2   resp.   || max(|h| - eps, 0) ||^2   of one recorded constraint value
CViol(c, k, s) == IF HasNaN(s) THEN INF
                  ELSE SumUpTo([j \in 1..Len(s) |-> Excess(c, k, s[j]) * Excess(c, k, s[j])], Len(s))
\* reading A: every recorded constraint counts, a constraint that is not recorded counts 0
ViolAll(c, p) == LET v == [k \in 1..NCons(c) |-> IF Recorded(p, k) THEN CViol(c, k, p.c[k]) ELSE 0]
                     RECURSIVE Acc(_)
                     Acc(k) == IF k = 0 THEN 0 ELSE Plus(v[k], Acc(k - 1))
                 IN Acc(NCons(c))
\* reading B: every recorded constraint counts, a partially evaluated point is not comparable (+oo)
ViolStrict(c, p) == IF \E k \in 1..NCons(c) : ~Recorded(p, k) THEN INF ELSE ViolAll(c, p)

MinimalUnder(V(_), h, i) == \A j \in 1..Len(h) : V(h[i]) <= V(h[j])

Usable(p) == p.f # <<>> /\ p.f[1] # NaN            \* the point has an objective value
Better(p, q) == Usable(p) /\ Usable(q) /\ p.f[1] < q.f[1]  \* strictly smaller standardised objective

-----------------------------------------------------------------------------
(* (a) The relation.  r = [idx, feas, f, c, g]: idx = position of the      *)
(* reported design point in the history (0: not a recorded point).         *)

SameValues(h, r) == /\ r.f = h[r.idx].f        \* objective,
                    /\ r.c = h[r.idx].c        \* constraint values and
                    /\ r.g = h[r.idx].g        \* gradients recorded for that very point

AccFeasibleCase(c, h, r) ==
    /\ r.feas
    /\ r.idx \in FeasIdx(c, h)
    /\ \A i \in FeasIdx(c, h) : ~Better(h[i], h[r.idx])       \* any member of a tie is accepted

AccInfeasibleCase(c, h, r) ==
    /\ ~r.feas
    /\ \/ MinimalUnder(LAMBDA p : ViolAll(c, p), h, r.idx)
       \/ MinimalUnder(LAMBDA p : ViolStrict(c, p), h, r.idx)

Acceptable(c, h, r) ==
    /\ r.idx \in 1..Len(h)
    /\ SameValues(h, r)
    /\ (IF FeasIdx(c, h) # {} THEN AccFeasibleCase(c, h, r) ELSE AccInfeasibleCase(c, h, r))

-----------------------------------------------------------------------------
(* (b) The algorithm as coded.                                             *)

\* check_design_point_is_feasible: loop over the constraints in order; brk = the loop is left at
\* the first constraint that is not recorded (as coded); ~brk = that constraint is skipped
RECURSIVE CodeViol(_, _, _, _, _)
CodeViol(c, p, k, acc, brk) ==
    IF k > NCons(c) THEN acc
    ELSE IF ~Recorded(p, k) THEN (IF brk THEN acc ELSE CodeViol(c, p, k + 1, acc, brk))
    ELSE IF Within(c, k, p.c[k]) THEN CodeViol(c, p, k + 1, acc, brk)
    ELSE IF HasNaN(p.c[k]) THEN INF
    ELSE CodeViol(c, p, k + 1, acc + CViol(c, k, p.c[k]), brk)

\* numpy.argmin: first index of the minimum
FirstMin(v, n) == CHOOSE i \in 1..n : (\A j \in 1..n : v[i] <= v[j]) /\ (\A j \in 1..(i - 1) : v[j] > v[i])

\* the loop of `optimum` over the feasible points: strict improvement over f_opt = +oo
RECURSIVE BestFeasible(_, _, _, _, _)
BestFeasible(c, h, i, best, fbest) ==
    IF i > Len(h) THEN best
    ELSE IF Feasible(c, h[i]) /\ Usable(h[i]) /\ h[i].f[1] < fbest
         THEN BestFeasible(c, h, i + 1, i, h[i].f[1])
         ELSE BestFeasible(c, h, i + 1, best, fbest)

PointReport(h, i, feas) == [idx |-> i, feas |-> feas, f |-> h[i].f, c |-> h[i].c, g |-> h[i].g]
EmptyReport(c) == [idx |-> 0, feas |-> TRUE, f |-> <<INF>>,
                   c |-> [k \in 1..NCons(c) |-> <<>>], g |-> [k \in 1..NCons(c) |-> 0]]
Min(S) == CHOOSE x \in S : \A y \in S : x <= y

\* emp = when no feasible point has a usable objective the report is the empty point (as coded);
\* ~emp = the first feasible point is reported
Select(c, h, brk, emp) ==
    IF FeasIdx(c, h) = {}
    THEN PointReport(h, FirstMin([i \in 1..Len(h) |-> CodeViol(c, h[i], 1, 0, brk)], Len(h)), FALSE)
    ELSE LET b == BestFeasible(c, h, 1, 0, INF)
         IN IF b # 0 THEN PointReport(h, b, TRUE)
            ELSE IF emp THEN EmptyReport(c)
            ELSE PointReport(h, Min(FeasIdx(c, h)), TRUE)

\* history.last_point
LastReport(c, h) == PointReport(h, Len(h), Feasible(c, h[Len(h)]))

-----------------------------------------------------------------------------
(* Diagnostics: the first clause of the relation that a report breaks      *)

HistoryClass(c, h) ==
    IF FeasIdx(c, h) # {}
    THEN (IF \E i \in FeasIdx(c, h) : Usable(h[i]) THEN "feasible_with_objective"
          ELSE "feasible_without_usable_objective")
    ELSE (IF \E i \in 1..Len(h) : \E k \in 1..NCons(c) : ~Recorded(h[i], k)
          THEN "infeasible_partially_evaluated" ELSE "infeasible_fully_evaluated")

Verdict(c, h, r) ==
    IF r.idx \notin 1..Len(h) THEN "RecordedPoint"
    ELSE IF r.f # h[r.idx].f THEN "ObjectiveOfThatPoint"
    ELSE IF r.c # h[r.idx].c THEN "ConstraintsOfThatPoint"
    ELSE IF r.g # h[r.idx].g THEN "GradientsOfThatPoint"
    ELSE IF FeasIdx(c, h) # {}
         THEN (IF ~r.feas THEN "FlaggedFeasible"
               ELSE IF r.idx \notin FeasIdx(c, h) THEN "ReportedPointFeasible"
               ELSE IF \E i \in FeasIdx(c, h) : Better(h[i], h[r.idx]) THEN "BestFeasible"
               ELSE "ok")
         ELSE (IF r.feas THEN "FlaggedInfeasible"
               ELSE IF ~AccInfeasibleCase(c, h, r) THEN "MinViolation"
               ELSE "ok")

\* why a failure v = Verdict(c,h,r) happened: a MinViolation failure where the reported point is
\* minimal only under the reading that stops counting at the first constraint that is not recorded
Why(c, h, r, v) ==
    IF v = "MinViolation"
    THEN (IF MinimalUnder(LAMBDA p : CodeViol(c, p, 1, 0, TRUE), h, r.idx)
          THEN "minimal_only_if_recorded_violation_after_missing_constraint_is_ignored"
          ELSE "not_minimal")
    ELSE IF v = "RecordedPoint" /\ r.idx = 0 THEN "empty_design_point"
    ELSE "-"

-----------------------------------------------------------------------------
(* The OptimizationResult built from the problem: the same relation, the   *)
(* objective reported with the sign of the ORIGINAL objective when the     *)
(* problem maximises and does not use the standardised objective.          *)
(* res = [built, idx (from x_opt), oi (optimum_index, -1: None), feas, f, c, g] *)

Neg(s) == IF s = <<>> \/ s[1] = NaN THEN s ELSE <<-s[1]>>
Standardised(c, s) == IF c.max /\ ~c.std THEN Neg(s) ELSE s
AsSolution(c, res) == [idx |-> res.idx, feas |-> res.feas, f |-> Standardised(c, res.f),
                       c |-> res.c, g |-> res.g]
ResultVerdict(c, h, res) ==
    IF ~res.built THEN "ResultBuilt"
    ELSE LET v == Verdict(c, h, AsSolution(c, res))
         IN IF v = "ObjectiveOfThatPoint" /\ Neg(Standardised(c, res.f)) = h[res.idx].f THEN "ObjectiveSign"
            ELSE IF v # "ok" THEN v
            ELSE IF res.oi # res.idx - 1 THEN "OptimumIndex"
            ELSE "ok"
ResultAcceptable(c, h, res) == /\ res.built
                               /\ Acceptable(c, h, AsSolution(c, res))
                               /\ res.oi = res.idx - 1

LastVerdict(c, h, r) ==
    IF r.idx # Len(h) THEN "LastPoint"
    ELSE IF r.f # h[r.idx].f THEN "ObjectiveOfThatPoint"
    ELSE IF r.c # h[r.idx].c THEN "ConstraintsOfThatPoint"
    ELSE IF r.g # h[r.idx].g THEN "GradientsOfThatPoint"
    ELSE IF r.feas # Feasible(c, h[Len(h)]) THEN "FeasibilityFlag"
    ELSE "ok"

\* history.check_design_point_is_feasible at every recorded point: vm[i] = [feas, v] with v the
\* measure in units of 1/16 (the square of the value unit).  The measure must count every recorded
\* constraint (either reading); the flag is judged on fully evaluated points only.
FullyRecorded(c, p) == \A k \in 1..NCons(c) : Recorded(p, k)
MeasureOk(c, p, m) == m.v \in {ViolAll(c, p), ViolStrict(c, p)}
MeasureVerdict(c, h, vm) ==
    IF Len(vm) # Len(h) THEN "MeasureOfEveryPoint"
    ELSE IF \E i \in 1..Len(h) : ~MeasureOk(c, h[i], vm[i]) THEN "ViolationMeasure"
    ELSE IF \E i \in 1..Len(h) : FullyRecorded(c, h[i]) /\ vm[i].feas # Feasible(c, h[i]) THEN "MeasureFeasibilityFlag"
    ELSE "ok"
MeasureWhy(c, h, vm, v) ==
    IF v = "ViolationMeasure"
    THEN (IF \A i \in 1..Len(h) : MeasureOk(c, h[i], vm[i]) \/ vm[i].v = CodeViol(c, h[i], 1, 0, TRUE)
          THEN "recorded_violation_after_missing_constraint_is_ignored" ELSE "wrong_measure")
    ELSE "-"

FeasiblePointsVerdict(c, h, fp) ==
    IF {fp[j] : j \in 1..Len(fp)} = FeasIdx(c, h) /\ Len(fp) = Cardinality(FeasIdx(c, h))
    THEN "ok" ELSE "FeasiblePoints"

-----------------------------------------------------------------------------
(* The bounded family of instances                                         *)

I0 == [ty |-> "ineq", d |-> 0]
I1 == [ty |-> "ineq", d |-> 1]
I2 == [ty |-> "ineq", d |-> 2]
E0 == [ty |-> "eq", d |-> 0]
E1 == [ty |-> "eq", d |-> 1]
E2 == [ty |-> "eq", d |-> 2]

\* objective alphabets
FVals(lv) == CASE lv = "rich" -> {<<>>, <<NaN>>, <<-1>>, <<0>>, <<1>>, <<2>>}
               [] lv = "mid"  -> {<<>>, <<NaN>>, <<-1>>, <<0>>, <<2>>}
               [] lv = "four" -> {<<>>, <<NaN>>, <<0>>, <<2>>}
               [] lv = "tiny" -> {<<>>, <<-1>>, <<2>>}
               [] lv = "two"  -> {<<>>, <<1>>}
               [] lv = "num"  -> {<<0>>, <<1>>}

\* constraint alphabets: values around the tolerance t of the constraint
CVals(con, t, lv) ==
    IF con.d <= 1 THEN
       IF con.ty = "ineq" THEN
          CASE lv = "rich" -> {<<>>, <<NaN>>, <<-1>>, <<0>>, <<t>>, <<2 * t>>, <<t + 1>>, <<3>>}
            [] lv = "mid"  -> {<<>>, <<NaN>>, <<t>>, <<t + 1>>, <<3>>}
            [] lv = "tiny" -> {<<>>, <<t>>, <<t + 1>>, <<3>>}
            [] lv = "three" -> {<<>>, <<t>>, <<3>>}
       ELSE
          CASE lv = "rich" -> {<<>>, <<NaN>>, <<-3>>, <<-t - 1>>, <<-t>>, <<0>>, <<t>>, <<t + 1>>}
            [] lv = "mid"  -> {<<>>, <<NaN>>, <<-t>>, <<t + 1>>, <<-3>>}
            [] lv = "tiny" -> {<<>>, <<-t>>, <<t + 1>>, <<-3>>}
            [] lv = "three" -> {<<>>, <<-t>>, <<-3>>}
    ELSE
       IF con.ty = "ineq" THEN
          CASE lv \in {"rich", "mid"} -> {<<>>, <<NaN, t>>, <<t, t>>, <<t + 1, t>>, <<t, 3>>, <<t + 1, t + 1>>, <<3, 3>>}
            [] lv = "tiny" -> {<<>>, <<t, t>>, <<t + 1, t>>, <<t + 1, 3>>}
            [] lv = "three" -> {<<>>, <<t, -1>>, <<t + 1, 3>>}
       ELSE
          CASE lv \in {"rich", "mid"} -> {<<>>, <<t, NaN>>, <<-t, t>>, <<t + 1, -t>>, <<-t, -3>>, <<-t - 1, t + 1>>, <<3, -3>>}
            [] lv = "tiny" -> {<<>>, <<-t, t>>, <<-t - 1, t>>, <<t + 1, -3>>}
            [] lv = "three" -> {<<>>, <<t, 0>>, <<-t - 1, 3>>}

E(cons, tI, tE, mx, sd, fa, gm, n, fl, cl) ==
    [c |-> [cons |-> cons, tolI |-> tI, tolE |-> tE, max |-> mx, std |-> sd, farr |-> fa, gm |-> gm],
     n |-> n, fl |-> fl, cl |-> cl]

QuickFamily == <<
  \* no constraint: every point is feasible; all reporting modes, float and array objective
  E(<<>>, 0, 0, FALSE, TRUE,  FALSE, "none", 3, "rich", "-"),
  E(<<>>, 0, 0, TRUE,  TRUE,  TRUE,  "none", 3, "rich", "-"),
  E(<<>>, 0, 0, TRUE,  FALSE, FALSE, "none", 3, "rich", "-"),
  E(<<>>, 0, 0, FALSE, FALSE, TRUE,  "none", 3, "mid",  "-"),
  \* one scalar constraint, rich alphabets, <= 2 points; the two tolerances differ
  E(<<I1>>, 0, 1, FALSE, TRUE,  FALSE, "all",  2, "rich", "rich"),
  E(<<I1>>, 1, 0, TRUE,  FALSE, FALSE, "alt",  2, "rich", "rich"),
  E(<<E1>>, 1, 0, FALSE, TRUE,  TRUE,  "alt",  2, "rich", "rich"),
  E(<<E1>>, 0, 1, TRUE,  TRUE,  FALSE, "all",  2, "rich", "rich"),
  E(<<I0>>, 1, 0, FALSE, TRUE,  FALSE, "none", 2, "mid",  "rich"),
  E(<<E0>>, 0, 1, TRUE,  FALSE, TRUE,  "none", 2, "mid",  "rich"),
  \* one constraint, 3 points
  E(<<I1>>, 1, 0, FALSE, TRUE,  FALSE, "alt",  3, "tiny", "mid"),
  E(<<E1>>, 0, 1, FALSE, TRUE,  FALSE, "all",  3, "tiny", "mid"),
  E(<<I2>>, 0, 0, TRUE,  FALSE, TRUE,  "all",  3, "two",  "mid"),
  E(<<E2>>, 1, 1, FALSE, FALSE, FALSE, "alt",  3, "two",  "mid"),
  \* two constraints, both orders of the types, <= 2 points
  E(<<I1, E1>>, 0, 0, FALSE, TRUE,  FALSE, "alt",  2, "tiny", "tiny"),
  E(<<I1, E1>>, 1, 0, TRUE,  FALSE, TRUE,  "all",  2, "tiny", "mid"),
  E(<<E1, I1>>, 0, 1, FALSE, TRUE,  FALSE, "all",  2, "tiny", "tiny"),
  E(<<E1, I1>>, 1, 1, TRUE,  TRUE,  FALSE, "none", 2, "tiny", "tiny"),
  E(<<I1, I0>>, 1, 0, FALSE, TRUE,  TRUE,  "alt",  2, "four", "tiny"),
  E(<<E0, E1>>, 0, 1, FALSE, FALSE, FALSE, "all",  2, "tiny", "tiny"),
  E(<<I2, E1>>, 1, 1, FALSE, TRUE,  FALSE, "all",  2, "tiny", "tiny"),
  E(<<E2, I2>>, 0, 0, TRUE,  FALSE, FALSE, "alt",  2, "two",  "tiny"),
  \* two constraints, 3 points, small alphabets
  E(<<I1, E1>>, 1, 1, FALSE, TRUE,  FALSE, "alt",  3, "two",  "three"),
  E(<<E1, I1>>, 0, 0, TRUE,  FALSE, FALSE, "all",  3, "num",  "three"),
  E(<<I2, I1>>, 0, 1, FALSE, TRUE,  TRUE,  "none", 2, "four", "tiny")
>>

ThoroughFamily == QuickFamily \o <<
  E(<<>>, 0, 0, TRUE,  FALSE, TRUE,  "none", 4, "rich", "-"),
  E(<<>>, 0, 0, FALSE, TRUE,  FALSE, "none", 4, "rich", "-"),
  E(<<I1>>, 1, 0, FALSE, TRUE,  FALSE, "all",  3, "mid",  "rich"),
  E(<<I1>>, 0, 1, TRUE,  FALSE, TRUE,  "alt",  3, "mid",  "rich"),
  E(<<E1>>, 0, 1, FALSE, TRUE,  FALSE, "alt",  3, "mid",  "rich"),
  E(<<E1>>, 1, 0, TRUE,  FALSE, FALSE, "all",  3, "mid",  "rich"),
  E(<<I1>>, 1, 1, FALSE, TRUE,  FALSE, "alt",  4, "tiny", "mid"),
  E(<<E0>>, 1, 0, TRUE,  FALSE, FALSE, "all",  4, "tiny", "mid"),
  E(<<I2>>, 1, 0, FALSE, TRUE,  FALSE, "all",  3, "four", "rich"),
  E(<<E2>>, 0, 1, TRUE,  FALSE, FALSE, "alt",  3, "four", "rich"),
  E(<<I1, E1>>, 1, 0, FALSE, TRUE,  FALSE, "all",  2, "mid",  "rich"),
  E(<<E1, I1>>, 0, 1, TRUE,  FALSE, TRUE,  "alt",  2, "mid",  "rich"),
  E(<<I1, I1>>, 1, 1, FALSE, TRUE,  FALSE, "alt",  2, "mid",  "rich"),
  E(<<E1, E0>>, 1, 1, FALSE, FALSE, FALSE, "all",  2, "mid",  "rich"),
  E(<<I1, E1>>, 0, 1, FALSE, TRUE,  FALSE, "alt",  3, "tiny", "tiny"),
  E(<<E1, I1>>, 1, 0, TRUE,  FALSE, FALSE, "all",  3, "tiny", "tiny"),
  E(<<I2, E1>>, 0, 0, FALSE, TRUE,  FALSE, "all",  3, "two",  "tiny"),
  E(<<E2, I1>>, 1, 1, TRUE,  TRUE,  FALSE, "alt",  3, "two",  "three"),
  E(<<I1, E1>>, 1, 1, FALSE, TRUE,  FALSE, "all",  4, "two",  "three"),
  E(<<E1, I0>>, 0, 0, TRUE,  FALSE, FALSE, "none", 3, "mid",  "three")
>>

Family == IF Tier = "quick" THEN QuickFamily ELSE ThoroughFamily

CSeqs(e) == LET c == e.c IN
    IF NCons(c) = 0 THEN {<<>>}
    ELSE IF NCons(c) = 1 THEN {<<a>> : a \in CVals(c.cons[1], Tol(c, 1), e.cl)}
    ELSE {<<a, b>> : a \in CVals(c.cons[1], Tol(c, 1), e.cl), b \in CVals(c.cons[2], Tol(c, 2), e.cl)}
RawPoints(e) == {[f |-> x, c |-> y] : x \in FVals(e.fl), y \in CSeqs(e)}
SeqsOfLen(P, m) == CASE m = 1 -> {<<a>> : a \in P}
                     [] m = 2 -> {<<a, b>> : a \in P, b \in P}
                     [] m = 3 -> {<<a, b, d>> : a \in P, b \in P, d \in P}
                     [] m = 4 -> {<<a, b, d, e>> : a \in P, b \in P, d \in P, e \in P}

\* the gradient of constraint k recorded at point i (an identifier), 0 when it is not recorded
GradId(c, i, k, p) == IF p.c[k] = <<>> \/ c.gm = "none" THEN 0
                      ELSE IF c.gm = "alt" /\ (i + k) % 2 = 1 THEN 0
                      ELSE 10 * i + k
Tup(f, n) == CASE n = 0 -> <<>> [] n = 1 -> <<f[1]>> [] n = 2 -> <<f[1], f[2]>>
               [] n = 3 -> <<f[1], f[2], f[3]>> [] n = 4 -> <<f[1], f[2], f[3], f[4]>>
WithGrads(c, hr) ==
    Tup([i \in 1..Len(hr) |->
           [f |-> hr[i].f, c |-> hr[i].c,
            g |-> Tup([k \in 1..NCons(c) |-> GradId(c, i, k, hr[i])], NCons(c))]], Len(hr))

Instances(e, m) == {[c |-> e.c, h |-> WithGrads(e.c, hr)] : hr \in SeqsOfLen(RawPoints(e), m)}

\* printed at start-up: per entry the number of distinct points and the maximal history length
ASSUME PrintT(<<"SIZES", [i \in 1..Len(Family) |-> <<Cardinality(RawPoints(Family[i])), Family[i].n>>]>>)

Init == \E u \in Units : inst \in Instances(Family[u \div 10], u % 10)
Next == UNCHANGED inst
Spec == Init /\ [][Next]_vars

-----------------------------------------------------------------------------
(* Invariants checked on every enumerated instance                         *)

C == inst.c
H == inst.h

\* the design-level theorem for the algorithm with both D8 rules repaired
Theorem == Acceptable(C, H, Select(C, H, FALSE, FALSE))
\* the algorithm as coded obeys the relation outside the two classes of D8, and the diagnostic
\* agrees with the relation
CodedOutsideD8 ==
    LET r == Select(C, H, TRUE, TRUE)
        v == Verdict(C, H, r)
    IN /\ Acceptable(C, H, r) <=> (v = "ok")
       /\ \/ v = "ok"
          \/ HistoryClass(C, H) = "feasible_without_usable_objective" /\ v = "RecordedPoint"
          \/ /\ HistoryClass(C, H) = "infeasible_partially_evaluated"
             /\ Why(C, H, r, v) = "minimal_only_if_recorded_violation_after_missing_constraint_is_ignored"
\* the measure as transcribed, once repaired, is reading A; as coded it differs exactly on D8(i)
MeasureTheorem == \A i \in 1..Len(H) : CodeViol(C, H[i], 1, 0, FALSE) = ViolAll(C, H[i])
\* last_point obeys "the values of that very point"
LastIsAPoint == LastVerdict(C, H, LastReport(C, H)) = "ok"

-----------------------------------------------------------------------------
(* Dump of each instance, with what the specification computed, for the replay *)

Variant(c, h, brk, emp) == LET r == Select(c, h, brk, emp)
                               v == Verdict(c, h, r)
                           IN [r |-> r, v |-> v, why |-> Why(c, h, r, v)]
Case == [c |-> C, h |-> H, cls |-> HistoryClass(C, H),
         coded |-> Variant(C, H, TRUE, TRUE), fixed |-> Variant(C, H, FALSE, FALSE)]
Emit == PrintT(ToJson(Case))
================================================================================
