------------------------------ MODULE ParallelExec ------------------------------
(***************************************************************************)
(* CallableParallelExecution (gemseo/core/parallel_execution/              *)
(* callable_parallel_execution.py): an executor OBJECT on which `execute`  *)
(* is called NExec times in a row.                                         *)
(*                                                                         *)
(* One action per observable step of the code:                             *)
(*   Main:   Start (a new call of execute: number of tasks, failing tasks, *)
(*                  queues, worker threads/processes)                      *)
(*           Fill (one queue_in.put per task, in index order)              *)
(*           Collect (queue_out.get, place BY INDEX, callbacks, count)     *)
(*           Sentinels (one None per worker), Join, Raise/Return           *)
(*   Worker: Take (queue_in.get), Run (the callable is entered),           *)
(*           Finish (queue_out.put of the value or of the exception)       *)
(* The workers are started before the queue is filled (as in the code), so *)
(* Take interleaves with Fill.  The number of tasks, fails and reraise are *)
(* chosen at each Start: TLC covers every number of tasks in TaskCounts,   *)
(* every subset of failing tasks and every subset of those whose exception *)
(* type is in exceptions_to_re_raise, for every execution, after EVERY     *)
(* terminal state of the previous one (normal end, early stop by a         *)
(* re-raised exception with results still in flight or left in queue_out). *)
(*                                                                         *)
(* What persists from one execution to the next is part of the state:      *)
(* PersistQueues = FALSE is the code (the queues are created by `execute`);*)
(* PersistQueues = TRUE is the design "the object keeps its queues", which *)
(* TLC refutes (ExecutionsIndependent, Positional, CallbackMatches).       *)
(***************************************************************************)
EXTENDS Naturals, Sequences, FiniteSets, TLC
CONSTANTS TaskCounts,     \* the possible numbers of tasks of one execution (a set of naturals)
          NWorkers,       \* n_processes of the executor object
          NExec,          \* number of consecutive executions on the same object
          PersistQueues
Workers == 1..NWorkers
None == 0
Val(k, i) == 100 * k + i              \* the result of task i of execution k
NoItem == [idx |-> 0, ok |-> TRUE, val |-> None, rr |-> FALSE]

(* --fair algorithm ParallelExec
variables
  e = 0,                     \* index of the current execution on this object
  nT = 0,                    \* its number of tasks
  fails = {}, reraise = {},
  queueIn = <<>>, queueOut = <<>>,
  ordered = <<>>,
  cbLog = <<>>, nOut = 0, stop = FALSE, last = NoItem,
  raised = FALSE, returned = FALSE,
  exited = [x \in Workers |-> FALSE],   \* worker x of the current execution received its sentinel
  closed = FALSE,
  finishLog = <<>>,          \* observation: order of the queue_out.put events
  startedAt = <<>>,          \* observation: set of running tasks just before each Finish
  carried = <<>>,            \* observation: what queue_out held when the execution started
  hist = <<>>,               \* observation: one record per finished execution
  cur = [x \in Workers |-> 0];  \* the task each worker holds (0: none / sentinel)

define
  NW == IF nT < NWorkers THEN nT ELSE NWorkers    \* min(n_tasks, n_processes)
  Active == 1..NW
end define;

process Main = 0
variables t = 1, w = 1;
begin
Start:
  while e < NExec do
    e := e + 1;
    with n \in TaskCounts, f \in SUBSET (1..n), r \in SUBSET f do
      nT := n; fails := f; reraise := r;
      ordered := [i \in 1..n |-> None];
    end with;
    cbLog := <<>>; nOut := 0; stop := FALSE; last := NoItem;
    raised := FALSE; returned := FALSE;
    finishLog := <<>>; startedAt := <<>>; t := 1; w := 1;
    exited := [x \in Workers |-> FALSE];   \* new worker threads/processes
    if ~PersistQueues then
      queueIn := <<>>; queueOut := <<>>;
    end if;
    carried := queueOut;
Fill:
    while t <= nT do
      queueIn := Append(queueIn, t);
      t := t + 1;
    end while;
Collect:
    while nOut # nT /\ ~stop do
      await queueOut # <<>>;
      last := Head(queueOut);
      queueOut := Tail(queueOut);
      if last.ok then
        ordered[last.idx] := last.val;
        cbLog := Append(cbLog, <<last.idx, last.val>>);
      elsif last.rr then
        stop := TRUE;
      end if;
      nOut := nOut + 1;
    end while;
Sentinels:
    while w <= NW do
      queueIn := Append(queueIn, 0);
      w := w + 1;
    end while;
Join:
    await \A x \in Active : exited[x];
Raise:
    if ~last.ok /\ last.rr then
      raised := TRUE;
    else
      returned := TRUE;
    end if;
    hist := Append(hist, [n |-> nT, fails |-> fails, reraise |-> reraise, flog |-> finishLog,
                          started |-> startedAt, ordered |-> ordered, cb |-> cbLog,
                          raised |-> (~last.ok /\ last.rr), who |-> last.idx,
                          left |-> Len(queueOut), carried |-> Len(carried)]);
  end while;
Close:
  closed := TRUE;
end process;

process Worker \in Workers
begin
Take:
  await closed \/ (queueIn # <<>> /\ self \in Active /\ ~exited[self]);
  if closed then
    goto Done;
  else
    cur[self] := Head(queueIn);
    queueIn := Tail(queueIn);
    if cur[self] = 0 then
      exited[self] := TRUE;
      goto Take;
    end if;
  end if;
Run:
  skip;
Finish:
  startedAt := Append(startedAt, {cur[x] : x \in {y \in Workers : pc[y] = "Finish"}});
  finishLog := Append(finishLog, cur[self]);
  queueOut := Append(queueOut, [idx |-> cur[self], ok |-> cur[self] \notin fails,
                                val |-> IF cur[self] \in fails THEN None ELSE Val(e, cur[self]),
                                rr |-> cur[self] \in reraise]);
  goto Take;
end process;
end algorithm; *)
\* BEGIN TRANSLATION
VARIABLES pc, e, nT, fails, reraise, queueIn, queueOut, ordered, cbLog, nOut, 
          stop, last, raised, returned, exited, closed, finishLog, startedAt, 
          carried, hist, cur

(* define statement *)
NW == IF nT < NWorkers THEN nT ELSE NWorkers
Active == 1..NW

VARIABLES t, w

vars == << pc, e, nT, fails, reraise, queueIn, queueOut, ordered, cbLog, nOut, 
           stop, last, raised, returned, exited, closed, finishLog, startedAt, 
           carried, hist, cur, t, w >>

ProcSet == {0} \cup (Workers)

Init == (* Global variables *)
        /\ e = 0
        /\ nT = 0
        /\ fails = {}
        /\ reraise = {}
        /\ queueIn = <<>>
        /\ queueOut = <<>>
        /\ ordered = <<>>
        /\ cbLog = <<>>
        /\ nOut = 0
        /\ stop = FALSE
        /\ last = NoItem
        /\ raised = FALSE
        /\ returned = FALSE
        /\ exited = [x \in Workers |-> FALSE]
        /\ closed = FALSE
        /\ finishLog = <<>>
        /\ startedAt = <<>>
        /\ carried = <<>>
        /\ hist = <<>>
        /\ cur = [x \in Workers |-> 0]
        (* Process Main *)
        /\ t = 1
        /\ w = 1
        /\ pc = [self \in ProcSet |-> CASE self = 0 -> "Start"
                                        [] self \in Workers -> "Take"]

Start == /\ pc[0] = "Start"
         /\ IF e < NExec
               THEN /\ e' = e + 1
                    /\ \E n \in TaskCounts:
                         \E f \in SUBSET (1..n):
                           \E r \in SUBSET f:
                             /\ nT' = n
                             /\ fails' = f
                             /\ reraise' = r
                             /\ ordered' = [i \in 1..n |-> None]
                    /\ cbLog' = <<>>
                    /\ nOut' = 0
                    /\ stop' = FALSE
                    /\ last' = NoItem
                    /\ raised' = FALSE
                    /\ returned' = FALSE
                    /\ finishLog' = <<>>
                    /\ startedAt' = <<>>
                    /\ t' = 1
                    /\ w' = 1
                    /\ exited' = [x \in Workers |-> FALSE]
                    /\ IF ~PersistQueues
                          THEN /\ queueIn' = <<>>
                               /\ queueOut' = <<>>
                          ELSE /\ TRUE
                               /\ UNCHANGED << queueIn, queueOut >>
                    /\ carried' = queueOut'
                    /\ pc' = [pc EXCEPT ![0] = "Fill"]
               ELSE /\ pc' = [pc EXCEPT ![0] = "Close"]
                    /\ UNCHANGED << e, nT, fails, reraise, queueIn, queueOut, 
                                    ordered, cbLog, nOut, stop, last, raised, 
                                    returned, exited, finishLog, startedAt, 
                                    carried, t, w >>
         /\ UNCHANGED << closed, hist, cur >>

Fill == /\ pc[0] = "Fill"
        /\ IF t <= nT
              THEN /\ queueIn' = Append(queueIn, t)
                   /\ t' = t + 1
                   /\ pc' = [pc EXCEPT ![0] = "Fill"]
              ELSE /\ pc' = [pc EXCEPT ![0] = "Collect"]
                   /\ UNCHANGED << queueIn, t >>
        /\ UNCHANGED << e, nT, fails, reraise, queueOut, ordered, cbLog, nOut, 
                        stop, last, raised, returned, exited, closed, 
                        finishLog, startedAt, carried, hist, cur, w >>

Collect == /\ pc[0] = "Collect"
           /\ IF nOut # nT /\ ~stop
                 THEN /\ queueOut # <<>>
                      /\ last' = Head(queueOut)
                      /\ queueOut' = Tail(queueOut)
                      /\ IF last'.ok
                            THEN /\ ordered' = [ordered EXCEPT ![last'.idx] = last'.val]
                                 /\ cbLog' = Append(cbLog, <<last'.idx, last'.val>>)
                                 /\ stop' = stop
                            ELSE /\ IF last'.rr
                                       THEN /\ stop' = TRUE
                                       ELSE /\ TRUE
                                            /\ stop' = stop
                                 /\ UNCHANGED << ordered, cbLog >>
                      /\ nOut' = nOut + 1
                      /\ pc' = [pc EXCEPT ![0] = "Collect"]
                 ELSE /\ pc' = [pc EXCEPT ![0] = "Sentinels"]
                      /\ UNCHANGED << queueOut, ordered, cbLog, nOut, stop, 
                                      last >>
           /\ UNCHANGED << e, nT, fails, reraise, queueIn, raised, returned, 
                           exited, closed, finishLog, startedAt, carried, hist, 
                           cur, t, w >>

Sentinels == /\ pc[0] = "Sentinels"
             /\ IF w <= NW
                   THEN /\ queueIn' = Append(queueIn, 0)
                        /\ w' = w + 1
                        /\ pc' = [pc EXCEPT ![0] = "Sentinels"]
                   ELSE /\ pc' = [pc EXCEPT ![0] = "Join"]
                        /\ UNCHANGED << queueIn, w >>
             /\ UNCHANGED << e, nT, fails, reraise, queueOut, ordered, cbLog, 
                             nOut, stop, last, raised, returned, exited, 
                             closed, finishLog, startedAt, carried, hist, cur, 
                             t >>

Join == /\ pc[0] = "Join"
        /\ \A x \in Active : exited[x]
        /\ pc' = [pc EXCEPT ![0] = "Raise"]
        /\ UNCHANGED << e, nT, fails, reraise, queueIn, queueOut, ordered, 
                        cbLog, nOut, stop, last, raised, returned, exited, 
                        closed, finishLog, startedAt, carried, hist, cur, t, w >>

Raise == /\ pc[0] = "Raise"
         /\ IF ~last.ok /\ last.rr
               THEN /\ raised' = TRUE
                    /\ UNCHANGED returned
               ELSE /\ returned' = TRUE
                    /\ UNCHANGED raised
         /\ hist' = Append(hist, [n |-> nT, fails |-> fails, reraise |-> reraise, flog |-> finishLog,
                                  started |-> startedAt, ordered |-> ordered, cb |-> cbLog,
                                  raised |-> (~last.ok /\ last.rr), who |-> last.idx,
                                  left |-> Len(queueOut), carried |-> Len(carried)])
         /\ pc' = [pc EXCEPT ![0] = "Start"]
         /\ UNCHANGED << e, nT, fails, reraise, queueIn, queueOut, ordered, 
                         cbLog, nOut, stop, last, exited, closed, finishLog, 
                         startedAt, carried, cur, t, w >>

Close == /\ pc[0] = "Close"
         /\ closed' = TRUE
         /\ pc' = [pc EXCEPT ![0] = "Done"]
         /\ UNCHANGED << e, nT, fails, reraise, queueIn, queueOut, ordered, 
                         cbLog, nOut, stop, last, raised, returned, exited, 
                         finishLog, startedAt, carried, hist, cur, t, w >>

Main == Start \/ Fill \/ Collect \/ Sentinels \/ Join \/ Raise \/ Close

Take(self) == /\ pc[self] = "Take"
              /\ closed \/ (queueIn # <<>> /\ self \in Active /\ ~exited[self])
              /\ IF closed
                    THEN /\ pc' = [pc EXCEPT ![self] = "Done"]
                         /\ UNCHANGED << queueIn, exited, cur >>
                    ELSE /\ cur' = [cur EXCEPT ![self] = Head(queueIn)]
                         /\ queueIn' = Tail(queueIn)
                         /\ IF cur'[self] = 0
                               THEN /\ exited' = [exited EXCEPT ![self] = TRUE]
                                    /\ pc' = [pc EXCEPT ![self] = "Take"]
                               ELSE /\ pc' = [pc EXCEPT ![self] = "Run"]
                                    /\ UNCHANGED exited
              /\ UNCHANGED << e, nT, fails, reraise, queueOut, ordered, cbLog, 
                              nOut, stop, last, raised, returned, closed, 
                              finishLog, startedAt, carried, hist, t, w >>

Run(self) == /\ pc[self] = "Run"
             /\ TRUE
             /\ pc' = [pc EXCEPT ![self] = "Finish"]
             /\ UNCHANGED << e, nT, fails, reraise, queueIn, queueOut, ordered, 
                             cbLog, nOut, stop, last, raised, returned, exited, 
                             closed, finishLog, startedAt, carried, hist, cur, 
                             t, w >>

Finish(self) == /\ pc[self] = "Finish"
                /\ startedAt' = Append(startedAt, {cur[x] : x \in {y \in Workers : pc[y] = "Finish"}})
                /\ finishLog' = Append(finishLog, cur[self])
                /\ queueOut' = Append(queueOut, [idx |-> cur[self], ok |-> cur[self] \notin fails,
                                                 val |-> IF cur[self] \in fails THEN None ELSE Val(e, cur[self]),
                                                 rr |-> cur[self] \in reraise])
                /\ pc' = [pc EXCEPT ![self] = "Take"]
                /\ UNCHANGED << e, nT, fails, reraise, queueIn, ordered, cbLog, 
                                nOut, stop, last, raised, returned, exited, 
                                closed, carried, hist, cur, t, w >>

Worker(self) == Take(self) \/ Run(self) \/ Finish(self)

(* Allow infinite stuttering to prevent deadlock on termination. *)
Terminating == /\ \A self \in ProcSet: pc[self] = "Done"
               /\ UNCHANGED vars

Next == Main
           \/ (\E self \in Workers: Worker(self))
           \/ Terminating

Spec == /\ Init /\ [][Next]_vars
        /\ WF_vars(Next)

Termination == <>(\A self \in ProcSet: pc[self] = "Done")

\* END TRANSLATION

Terminated == \A p \in {0} \cup Workers : pc[p] = "Done"
ExecEnded == raised \/ returned

\* ---- C13 safety clauses (they constrain EVERY execution on the object) ----
\* results positionally matched; failures leave None in their own slot only
Positional == returned =>
   /\ Len(ordered) = nT
   /\ \A i \in 1..nT : ordered[i] = (IF i \in fails THEN None ELSE Val(e, i))
   /\ Len(cbLog) = nT - Cardinality(fails)
SlotIsolation == \A i \in DOMAIN ordered : ordered[i] \in {None, Val(e, i)}
CallbackMatches == \A k \in 1..Len(cbLog) :
   cbLog[k][1] \in (1..nT) \ fails /\ cbLog[k][2] = Val(e, cbLog[k][1])
CallbackOnce == \A k, l \in 1..Len(cbLog) : cbLog[k][1] = cbLog[l][1] => k = l
CallbackAll == returned => \A i \in (1..nT) \ fails : \E k \in 1..Len(cbLog) : cbLog[k][1] = i
\* every task is run exactly once, also on the early-stop path (workers drain the queue)
RunOnce == /\ \A k, l \in 1..Len(finishLog) : finishLog[k] = finishLog[l] => k = l
           /\ (ExecEnded => Len(finishLog) = nT)
\* an exception is re-raised iff a collected failure is of a re-raised type
RaiseIff == ExecEnded => (raised <=> stop)
ReturnXorRaise == ~(raised /\ returned)
NoLostResult == Len(finishLog) = nOut + Len(queueOut)
\* execution k does not depend on execution k-1: it starts from the state a new object starts from,
\* and the outcome recorded for it is the one of a first execution with the same tasks
ExecutionsIndependent ==
   /\ (pc[0] = "Fill" /\ t = 1) => (queueIn = <<>> /\ queueOut = <<>>)
   /\ \A k \in 1..Len(hist) :
        /\ hist[k].carried = 0
        /\ hist[k].raised <=> (\E j \in 1..Len(hist[k].flog) : hist[k].flog[j] \in hist[k].reraise)
        /\ ~hist[k].raised =>
             hist[k].ordered = [i \in 1..hist[k].n |-> IF i \in hist[k].fails THEN None ELSE Val(k, i)]
        /\ \A c \in 1..Len(hist[k].cb) :
             /\ hist[k].cb[c][1] \in (1..hist[k].n) \ hist[k].fails
             /\ hist[k].cb[c][2] = Val(k, hist[k].cb[c][1])
Liveness == <>Terminated

\* observation variables are not part of the state for exhaustive safety checking
View == <<e, nT, fails, reraise, queueIn, queueOut, ordered, cbLog, nOut, stop, last, raised, returned,
          exited, closed, pc, t, w, cur>>
\* printed once per behaviour: when Main leaves its last execution (the workers are blocked until Close)
Orders == pc[0] = "Close" => PrintT(<<"HIST", hist>>)
=============================================================================
