------------------------------ MODULE ParallelExec ------------------------------
(***************************************************************************)
(* CallableParallelExecution.execute (gemseo/core/parallel_execution/      *)
(* callable_parallel_execution.py).                                        *)
(*                                                                         *)
(* One action per observable step of the code:                             *)
(*   Main:   Fill (one queue_in.put per task, in index order)              *)
(*           Collect (queue_out.get, place BY INDEX, callbacks, count)     *)
(*           Sentinels (one None per worker), Join, Raise/Return           *)
(*   Worker: Take (queue_in.get), Run (the callable is entered),           *)
(*           Finish (queue_out.put of the value or of the exception)       *)
(* The workers are started before the queue is filled (as in the code), so *)
(* Take interleaves with Fill.  fails / reraise are chosen in Init: TLC    *)
(* covers every subset of failing tasks and every subset of those whose    *)
(* exception type is in exceptions_to_re_raise.                            *)
(***************************************************************************)
EXTENDS Naturals, Sequences, FiniteSets, TLC
CONSTANTS NTasks, NWorkers
Tasks == 1..NTasks
NW == IF NTasks < NWorkers THEN NTasks ELSE NWorkers    \* min(n_tasks, n_processes)
Workers == 1..NW
None == 0
Val(i) == 100 + i
NoItem == [idx |-> 0, ok |-> TRUE, val |-> None]

(* --fair algorithm ParallelExec
variables
  fails \in SUBSET Tasks,
  reraise \in SUBSET fails,
  queueIn = <<>>, queueOut = <<>>,
  ordered = [i \in Tasks |-> None],
  cbLog = <<>>, nOut = 0, stop = FALSE, last = NoItem,
  raised = FALSE, returned = FALSE,
  finishLog = <<>>,          \* observation: order of the queue_out.put events
  startedAt = <<>>,          \* observation: set of running tasks just before each Finish
  cur = [x \in Workers |-> 0];  \* the task each worker holds (0: none / sentinel)

process Main = 0
variables t = 1, w = 1;
begin
Fill:
  while t <= NTasks do
    queueIn := Append(queueIn, t);
    t := t + 1;
  end while;
Collect:
  while nOut # NTasks /\ ~stop do
    await queueOut # <<>>;
    last := Head(queueOut);
    queueOut := Tail(queueOut);
    if last.ok then
      ordered[last.idx] := last.val;
      cbLog := Append(cbLog, <<last.idx, last.val>>);
    elsif last.idx \in reraise then
      stop := TRUE;
    end if;
    nOut := nOut + 1;
  end while;
Sentinels:
  while w <= NW do
    queueIn := Append(queueIn, 0);
    w := w + 1;
  end while;
Join:
  await \A x \in Workers : pc[x] = "Done";
Raise:
  if last.idx # 0 /\ ~last.ok /\ last.idx \in reraise then
    raised := TRUE;
  else
    returned := TRUE;
  end if;
end process;

process Worker \in Workers
begin
Take:
  await queueIn # <<>>;
  cur[self] := Head(queueIn);
  queueIn := Tail(queueIn);
  if cur[self] = 0 then goto Done; end if;
Run:
  skip;
Finish:
  startedAt := Append(startedAt, {cur[x] : x \in {y \in Workers : pc[y] = "Finish"}});
  finishLog := Append(finishLog, cur[self]);
  queueOut := Append(queueOut, [idx |-> cur[self], ok |-> cur[self] \notin fails,
                                val |-> IF cur[self] \in fails THEN None ELSE Val(cur[self])]);
  goto Take;
end process;
end algorithm; *)
\* BEGIN TRANSLATION
VARIABLES pc, fails, reraise, queueIn, queueOut, ordered, cbLog, nOut, stop, 
          last, raised, returned, finishLog, startedAt, cur, t, w

vars == << pc, fails, reraise, queueIn, queueOut, ordered, cbLog, nOut, stop, 
           last, raised, returned, finishLog, startedAt, cur, t, w >>

ProcSet == {0} \cup (Workers)

Init == (* Global variables *)
        /\ fails \in SUBSET Tasks
        /\ reraise \in SUBSET fails
        /\ queueIn = <<>>
        /\ queueOut = <<>>
        /\ ordered = [i \in Tasks |-> None]
        /\ cbLog = <<>>
        /\ nOut = 0
        /\ stop = FALSE
        /\ last = NoItem
        /\ raised = FALSE
        /\ returned = FALSE
        /\ finishLog = <<>>
        /\ startedAt = <<>>
        /\ cur = [x \in Workers |-> 0]
        (* Process Main *)
        /\ t = 1
        /\ w = 1
        /\ pc = [self \in ProcSet |-> CASE self = 0 -> "Fill"
                                        [] self \in Workers -> "Take"]

Fill == /\ pc[0] = "Fill"
        /\ IF t <= NTasks
              THEN /\ queueIn' = Append(queueIn, t)
                   /\ t' = t + 1
                   /\ pc' = [pc EXCEPT ![0] = "Fill"]
              ELSE /\ pc' = [pc EXCEPT ![0] = "Collect"]
                   /\ UNCHANGED << queueIn, t >>
        /\ UNCHANGED << fails, reraise, queueOut, ordered, cbLog, nOut, stop, 
                        last, raised, returned, finishLog, startedAt, cur, w >>

Collect == /\ pc[0] = "Collect"
           /\ IF nOut # NTasks /\ ~stop
                 THEN /\ queueOut # <<>>
                      /\ last' = Head(queueOut)
                      /\ queueOut' = Tail(queueOut)
                      /\ IF last'.ok
                            THEN /\ ordered' = [ordered EXCEPT ![last'.idx] = last'.val]
                                 /\ cbLog' = Append(cbLog, <<last'.idx, last'.val>>)
                                 /\ stop' = stop
                            ELSE /\ IF last'.idx \in reraise
                                       THEN /\ stop' = TRUE
                                       ELSE /\ TRUE
                                            /\ stop' = stop
                                 /\ UNCHANGED << ordered, cbLog >>
                      /\ nOut' = nOut + 1
                      /\ pc' = [pc EXCEPT ![0] = "Collect"]
                 ELSE /\ pc' = [pc EXCEPT ![0] = "Sentinels"]
                      /\ UNCHANGED << queueOut, ordered, cbLog, nOut, stop, 
                                      last >>
           /\ UNCHANGED << fails, reraise, queueIn, raised, returned, 
                           finishLog, startedAt, cur, t, w >>

Sentinels == /\ pc[0] = "Sentinels"
             /\ IF w <= NW
                   THEN /\ queueIn' = Append(queueIn, 0)
                        /\ w' = w + 1
                        /\ pc' = [pc EXCEPT ![0] = "Sentinels"]
                   ELSE /\ pc' = [pc EXCEPT ![0] = "Join"]
                        /\ UNCHANGED << queueIn, w >>
             /\ UNCHANGED << fails, reraise, queueOut, ordered, cbLog, nOut, 
                             stop, last, raised, returned, finishLog, 
                             startedAt, cur, t >>

Join == /\ pc[0] = "Join"
        /\ \A x \in Workers : pc[x] = "Done"
        /\ pc' = [pc EXCEPT ![0] = "Raise"]
        /\ UNCHANGED << fails, reraise, queueIn, queueOut, ordered, cbLog, 
                        nOut, stop, last, raised, returned, finishLog, 
                        startedAt, cur, t, w >>

Raise == /\ pc[0] = "Raise"
         /\ IF last.idx # 0 /\ ~last.ok /\ last.idx \in reraise
               THEN /\ raised' = TRUE
                    /\ UNCHANGED returned
               ELSE /\ returned' = TRUE
                    /\ UNCHANGED raised
         /\ pc' = [pc EXCEPT ![0] = "Done"]
         /\ UNCHANGED << fails, reraise, queueIn, queueOut, ordered, cbLog, 
                         nOut, stop, last, finishLog, startedAt, cur, t, w >>

Main == Fill \/ Collect \/ Sentinels \/ Join \/ Raise

Take(self) == /\ pc[self] = "Take"
              /\ queueIn # <<>>
              /\ cur' = [cur EXCEPT ![self] = Head(queueIn)]
              /\ queueIn' = Tail(queueIn)
              /\ IF cur'[self] = 0
                    THEN /\ pc' = [pc EXCEPT ![self] = "Done"]
                    ELSE /\ pc' = [pc EXCEPT ![self] = "Run"]
              /\ UNCHANGED << fails, reraise, queueOut, ordered, cbLog, nOut, 
                              stop, last, raised, returned, finishLog, 
                              startedAt, t, w >>

Run(self) == /\ pc[self] = "Run"
             /\ TRUE
             /\ pc' = [pc EXCEPT ![self] = "Finish"]
             /\ UNCHANGED << fails, reraise, queueIn, queueOut, ordered, cbLog, 
                             nOut, stop, last, raised, returned, finishLog, 
                             startedAt, cur, t, w >>

Finish(self) == /\ pc[self] = "Finish"
                /\ startedAt' = Append(startedAt, {cur[x] : x \in {y \in Workers : pc[y] = "Finish"}})
                /\ finishLog' = Append(finishLog, cur[self])
                /\ queueOut' = Append(queueOut, [idx |-> cur[self], ok |-> cur[self] \notin fails,
                                                 val |-> IF cur[self] \in fails THEN None ELSE Val(cur[self])])
                /\ pc' = [pc EXCEPT ![self] = "Take"]
                /\ UNCHANGED << fails, reraise, queueIn, ordered, cbLog, nOut, 
                                stop, last, raised, returned, cur, t, w >>

Worker(self) == Take(self) \/ Run(self) \/ Finish(self)

(* Allow infinite stuttering to prevent deadlock on termination. *)
Terminating == /\ \A self \in ProcSet: pc[self] = "Done"
               /\ UNCHANGED vars

Next == Main
           \/ (\E self \in Workers: Worker(self))
           \/ Terminating

Spec == /\ Init /\ [][Next]_vars
        /\ WF_vars(Next)

Termination == <>(\A self \in ProcSet: pc[self] = "Done")

\* END TRANSLATION

Terminated == \A p \in {0} \cup Workers : pc[p] = "Done"

\* ---- C13 safety clauses ----
\* results positionally matched; failures leave None in their own slot only
Positional == returned =>
   /\ \A i \in Tasks : ordered[i] = (IF i \in fails THEN None ELSE Val(i))
   /\ Len(cbLog) = NTasks - Cardinality(fails)
SlotIsolation == \A i \in Tasks : ordered[i] \in {None, Val(i)}
CallbackMatches == \A k \in 1..Len(cbLog) : cbLog[k][1] \notin fails /\ cbLog[k][2] = Val(cbLog[k][1])
CallbackOnce == \A k, l \in 1..Len(cbLog) : cbLog[k][1] = cbLog[l][1] => k = l
CallbackAll == returned => \A i \in Tasks \ fails : \E k \in 1..Len(cbLog) : cbLog[k][1] = i
\* every task is run exactly once, also on the early-stop path (workers drain the queue)
RunOnce == /\ \A k, l \in 1..Len(finishLog) : finishLog[k] = finishLog[l] => k = l
           /\ (Terminated => Len(finishLog) = NTasks)
\* an exception is re-raised iff a collected failure is of a re-raised type
RaiseIff == Terminated => (raised <=> stop)
ReturnXorRaise == Terminated => (raised # returned)
NoLostResult == Len(finishLog) = nOut + Len(queueOut)
Liveness == <>Terminated

\* observation variables are not part of the state for exhaustive safety checking
View == <<fails, reraise, queueIn, queueOut, ordered, cbLog, nOut, stop, last, raised, returned, pc, t, w, cur>>
Orders == Terminated => PrintT(<<"ORDER", fails, reraise, finishLog, startedAt, ordered, cbLog, raised>>)
=============================================================================
